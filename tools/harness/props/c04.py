"""C04 EBB3 / EBBMotionWrap: the first recorded error latches; a latched or unconnected object transmits nothing."""
from props import ebb3sim as S

ID = "C04"
CFG = (True, True, True, True)     # (fix_status, fix_volt, fix_nick, fix_pin): readings of the model the implementation is compared with (True = repaired in /repo)
COQ_HEADER = "From Plotink Require Import Base.Prelude Base.PyStr Model.Serial3 Corr.S3 Corr.C04.\nOpen Scope Z_scope."
COQ_RUN = "run04"
COQ_CASE_TYPE = "case04"
SHARD = 60
RULE = ("requests made of several exchanges (chunked pause, motor set-up, 32-bit variables, pin configuration) with a fault / error line / wrong name / silence at every exchange (nothing may be written after the record, observed at record_error); systematic: every one of the 32 request methods called on an object that is (a) never connected, (b) connected and latched by each error kind "
        "(timeout, unexpected reply, device error line, USB exception, unsupported firmware, failed handshake, no device), (c) disconnected after an error, "
        "(d) reconnected while latched, (d') public record_error calls with empty / blank / ordinary first messages followed by further errors (judged by the harness on the err text),  (e) closed by disconnect / reboot / bootload, with and without the port's close() raising, then reconnected; plus random histories of up to 12 calls against a conforming-device script with one disturbance "
        "(fault / 26 empty reads / error line / wrong-name line / extra empties) at a random I/O position; the fake port records every write; "
        "non-trivial = history in which an error is recorded before the last call")
TRUSTED = ["pyserial behaviour = fake port: write/readline succeed, return b'' on timeout, or raise SerialException", "error kinds are recognised by message prefix"]
ASSUMPTIONS = ["faults are SerialException raised by write/readline/open/close; replies are ASCII"]
EXHAUSTIVE = False

def _latchers(rng):
    """(name, calls, events) prefixes that leave the object with a recorded error"""
    good = [("connect", S.GOOD_PORTS, None)]
    cs = S.connect_script()
    return [
        ("never-connected", [], []),
        ("timeout", good + [("command", "EM,1,1")], cs + ["E"] + ["E"] * 27),
        ("unexpected", good + [("query", "QS")], cs + ["E", ("L", "ZZ,1,2")]),
        ("errline", good + [("command", "SP,1")], cs + ["E", ("L", "SP,Err: bad")]),
        ("usb-write", good + [("xy", 1, 2, 3)], cs + ["F"]),
        ("usb-read", good + [("var_read", 3)], cs + ["E", "F"]),
        ("old-firmware", [("connect", S.GOOD_PORTS, None)], ["E", "E", ("L", "EBBv13_and_above EB Firmware Version 2.8.1")]),
        ("not-ebb", [("connect", S.GOOD_PORTS, None)], ["E", "E", ("L", "hello"), "E", ("L", "world")]),
        ("no-device", [("connect", [("COM1", "Some modem", "USB VID:PID=1234:5678")], None)], []),
        ("open-fails", [("connect", S.GOOD_PORTS, None)], ["F"]),
        ("latched-then-disconnect", good + [("command", "EM,1,1"), ("disconnect",)], cs + ["E"] + ["E"] * 27),
        ("latched-then-reconnect", good + [("command", "EM,1,1"), ("disconnect",), ("connect", S.GOOD_PORTS, None)], cs + ["E"] + ["E"] * 27 + S.connect_script()),
        ("status-mismatch", good + [("status",)], cs + ["E", ("L", "ZZ,1")]),
    ]

def generate(rng, tier):
    cases = []
    reps = 1 if tier == "quick" else 10
    for _ in range(reps):
        for name, calls, events in _latchers(rng):
            for m in S.ALL_REQUESTS:
                c = S.sample_call(m, rng)
                tail = [c] + ([S.random_call(rng)] if rng.random() < 0.5 else [])
                ev = list(events)
                for t in tail: ev += S.nominal(t, rng)          # replies are available: a latched object must not consume them
                cases.append({"calls": list(calls) + tail, "events": ev, "family": "latched:%s/%s" % (name, m)})
    # degenerate request texts on an object that cannot transmit (empty, white space only, one character, a lone comma): the refusal comes
    # before anything is done with the text, so the failure value is returned and nothing is raised or written
    for _ in range(reps):
        for name, calls, events in _latchers(rng) + [("closed", [("connect", S.GOOD_PORTS, None), ("disconnect",)], S.connect_script())]:
            for kind in ("command", "query"):
                for txt in ("", " ", "\t\r\n", "\xa0", ",", "Q"):
                    tail = [(kind, txt)] + ([S.random_call(rng)] if rng.random() < 0.5 else [])
                    ev = list(events) + S.nominal(("query", "QS"), rng)
                    cases.append({"calls": list(calls) + tail, "events": ev, "family": "degenerate-text:%s/%s/%r" % (name, kind, txt)})
    # the same request (or the request that reads back what an earlier one wrote) succeeded on this object before the error was recorded:
    # what it returned then must not be handed out again afterwards - the failure value is returned and nothing is written
    latches = [("timeout", ("command", "EM,1,1"), ["E"] + ["E"] * 27), ("errline", ("command", "SP,1"), ["E", ("L", "SP,Err: bad")]),
               ("usb-read", ("query", "QS"), ["E", "F"]), ("unexpected", ("query", "QS"), ["E", ("L", "ZZ,1,2")])]
    pairs = [(("var_write", 42, 7), ("var_read", 7)), (("var_write32", -2, 7), ("var_read32", 7)), (("var_write32", 16843009, 4), ("var_read", 5)),
             (("write_nick", "Bot"), ("query_nick",)), (("motors_on", 1, 1), ("motors_query",)), (("var_read", 3), ("var_read", 3))]
    for _ in range(reps):
        todo = [(w, r) for w, r in pairs if w[0] in S.ALL_REQUESTS and r[0] in S.ALL_REQUESTS] + [(c0, c0) for c0 in (S.sample_call(m, rng) for m in S.ALL_REQUESTS)]
        for w, r in todo:
            lname, lcall, lev = rng.choice(latches)
            mid = [("disconnect",), ("connect", S.GOOD_PORTS, None)] if rng.random() < 0.15 else []
            calls = [("connect", S.GOOD_PORTS, None), w, lcall] + mid + [r]
            ev = S.connect_script() + S.nominal(w, rng) + lev + (S.connect_script() if mid else []) + S.nominal(r, rng)
            cases.append({"calls": calls, "events": ev, "family": "succeeded-before-the-error:%s/%s->%s" % (lname, w[0], r[0])})
    # a second (third) connect on an object that already holds an error: every handshake variant
    handshakes = [("good", S.connect_script()), ("old-firmware", ["E", "E", ("L", "EBBv13_and_above EB Firmware Version 2.8.1")]),
                  ("older-multi-digit", ["E", "E", ("L", "EBBv13_and_above EB Firmware Version 2.10.12")]),
                  ("not-ebb", ["E", "E", ("L", "hello"), "E", ("L", "world")]), ("late", ["E", "E", "E", "E", ("L", S.GOOD_VERSION), "E", ("L", "CU,OK"), "E", ("L", "QT,Bot")]),
                  ("silent", ["E", "E", "E", "E", "E"]), ("open-fails", ["F"]), ("write-fault", ["E", "F"]), ("read-fault", ["E", "E", "F"]),
                  ("second-read-fault", ["E", "E", "E", "E", "F"])]
    for _ in range(reps):
        for name, calls, events in _latchers(rng):
            for hname, hs in handshakes:
                for ports in (S.GOOD_PORTS, [("COM1", "Some modem", "USB VID:PID=1234:5678")]):
                    mid = [("disconnect",)] if rng.random() < 0.7 else []
                    tail = [S.random_call(rng), S.random_call(rng)]
                    ev = list(events) + list(hs)
                    for t in tail: ev += S.nominal(t, rng)
                    cases.append({"calls": list(calls) + mid + [("connect", ports, None)] + tail, "events": ev,
                                  "family": "reconnect:%s/%s" % (name, hname)})
    # closing: after disconnect / reboot / bootload the object is not connected, also when the port's close() itself fails
    # (a board that has just rebooted drops off the bus); every request afterwards, then a new connect with its handshake
    for _ in range(reps):
        for closer in (("disconnect",), ("reboot",), ("bootload",)):
            for close_raises in (False, True):
                for m in S.ALL_REQUESTS:
                    c = S.sample_call(m, rng)
                    pre = [S.random_call(rng)] if rng.random() < 0.5 else []
                    calls = [("connect", S.GOOD_PORTS, None)] + pre + [closer, c]
                    ev = S.connect_script()
                    for t in pre: ev += S.nominal(t, rng)
                    ev += S.nominal(closer, rng)
                    ev += S.nominal(c, rng)                        # available, must not be consumed
                    if rng.random() < 0.3:
                        calls += [("connect", S.GOOD_PORTS, None), S.random_call(rng)]
                    cases.append({"calls": calls, "events": ev, "close_raises": close_raises,
                                  "family": "closed:%s%s/%s" % (closer[0], "+close-fault" if close_raises else "", m)})
    # an error recorded in the middle of a request that consists of several exchanges (a long pause sent in chunks, the motor set-up
    # sequence, the four variable slots of a 32-bit value, pin configuration): nothing further may be transmitted, by that request or later ones
    multi = [("pause", 1600), ("pause", 2300), ("pause", 751), ("motors_on", 0, 3), ("motors_on", 2, 0), ("motors_on", 0, 5), ("var_write32", -2, 7),
             ("var_read32", 9), ("b_config", 3, 1, 1), ("write_nick", "Bot")]
    for _ in range(reps):
        for c in multi:
            nom = S.nominal(c, rng)
            for i in range(len(nom)):
                for kind, repl in (("fault", ["F"]), ("errline", [("L", "!Err: 5")]), ("wrongname", [("L", "ZZ,1")]), ("silence", ["E"] * 30)):
                    if kind in ("errline", "wrongname") and nom[i] == "E": continue
                    ev = S.connect_script() + nom[:i] + repl + nom[i + 1:]
                    tail = [S.random_call(rng)]
                    for t in tail: ev += S.nominal(t, rng)
                    cases.append({"calls": [("connect", S.GOOD_PORTS, None), c] + tail, "events": ev, "family": "mid-call:%s@%d/%s" % (kind, i, c[0])})
    # record_error is public: the first recorded message (whatever text it is, the empty string included) stays, later ones are dropped;
    # judged by the harness itself on the err attribute (the model records error kinds, not texts)
    for first in ["", " ", "0", "USB cable fault", "None"]:
        for later in (["again"], ["", "x"], ["reconnect-old"], ["reconnect-none"], ["x", "reconnect-old", "y"],
                      ["e%d" % i for i in range(40)], ["reconnect-none"] * 34 + ["z"], ["reconnect-old", "reconnect-none"] * 20):      # a long tail of later errors (an application polling connect() for minutes)
            cases.append({"rec": [first] + later, "calls": [], "events": [], "family": "record_error/%r" % first})
    n = 250 if tier == "quick" else 15000
    for _ in range(n):
        calls = [("connect", S.GOOD_PORTS, rng.choice([None, None, "Bot", "/dev/ttyACM0"]))]
        for _ in range(rng.randint(1, 11)):
            calls.append(S.random_call(rng) if rng.random() < 0.93 else rng.choice([("disconnect",), ("connect", S.GOOD_PORTS, None), ("reboot",), ("bootload",)]))
        parts = [S.nominal(c, rng) for c in calls]
        j = rng.randrange(len(parts)); dist = "clean"
        if rng.random() < 0.85:
            parts[j], dist = S.disturb(parts[j], rng)
        cases.append({"calls": calls, "events": sum(parts, []), "family": "history/%s" % dist.split("@")[0]})
    return cases

def _run_record(c):
    """a connected object; record_error(first); then further record_error calls / failing reconnects: err must stay the first message"""
    script = S.Script(S.connect_script() + ["E", "E", ("L", "EBBv13_and_above EB Firmware Version 2.8.1")] * 60)
    fp = S.install(script, S.GOOD_PORTS)
    try:
        obj = S.ebb3_motion.EBBMotionWrap()
        if not obj.connect(): return {"rec_ok": False, "why": "could not connect"}
        first = c["rec"][0]
        obj.record_error(first)
        for step in c["rec"][1:]:
            if step == "reconnect-old": obj.disconnect(); obj.connect()
            elif step == "reconnect-none":
                obj.disconnect(); S.ebb3_serial.comports = lambda: []; obj.connect(); S.ebb3_serial.comports = lambda: list(S.GOOD_PORTS)
            else: obj.record_error(step)
            if obj.err != first:
                return {"rec_ok": False, "why": "after %r the recorded message is %r, the first recorded was %r" % (step, obj.err, first)}
            before = len(fp.writes)
            if obj.command("SM,10,1,1") is not False or len(fp.writes) != before:
                return {"rec_ok": False, "why": "a request was transmitted / succeeded with the message %r recorded" % (obj.err,)}
        return {"rec_ok": True}
    finally:
        S.uninstall()

def run_impl(c):
    if "rec" in c:
        return _run_record(c)
    return {"obs": S.jsonable_obs(S.run_history(c["calls"], c["events"], c.get("close_raises", False)))}

def coq_case(c, r):
    if "rec" in c:
        if r.get("rec_ok"): return "(K04 %s [] [] [])" % S.coq_cfg(*CFG)
        return "(K04 %s [] [(CStatus, mkobs true RNone [] None false None 0%%nat)] [])" % S.coq_cfg(*CFG)
    if "raise" in r or any(o["raised"] in ("RecordedErrorErased", "WroteAfterRecordedError", "RecordedErrorReplaced") for o in r["obs"]):
        # the harness could not run the history, or an error that was recorded during a call had vanished when the call returned
        # ("the recorded message is never replaced" - nor dropped), or a request went on transmitting after it had recorded an error
        # ("every later command ... writes no bytes"): no reading of the observations can satisfy the property
        return "(K04 %s [] [(CStatus, mkobs true RNone [] None false None 0%%nat)] [])" % S.coq_cfg(*CFG)
    from common import clist, cb
    return "(K04 %s %s %s %s)" % (S.coq_cfg(*CFG), S.coq_script(c["events"]), S.coq_history(c["calls"], r["obs"]),
                                  clist([cb(bool(o.get("read_err"))) for o in r["obs"]]))

def nontrivial(c, r):
    if "rec" in c: return len(c["rec"]) >= 3
    obs = r.get("obs", [])
    return any(o["err"] is not None for o in obs[:-1])

def explain(c, r):
    if "rec" in c: return {"record_error_then": c["rec"], "result": r}
    return {"port_close_raises": c.get("close_raises", False), "calls": [list(map(str, x)) for x in c["calls"]], "script": [e if isinstance(e, str) else e[1] for e in c["events"]][:80],
            "observed": [{k: o[k] for k in ("raised", "ret", "writes", "err", "port", "consumed")} for o in r.get("obs", [])]}

def shrink(c):
    if "rec" in c: return
    calls = c["calls"]
    for i in range(len(calls) - 1, 0, -1):
        yield dict(c, calls=calls[:i] + calls[i + 1:])
