"""C13 spatial_grid.Index: nearest() over histories of queries and removals."""
from fractions import Fraction as F
from common import cq, cz, cb, clist, cnat
from plotink import spatial_grid

import common
ID = "C13"
COQ_HEADER = "From Plotink Require Import Base.Prelude Model.Grid Corr.C13.\nOpen Scope Z_scope."
COQ_RUN = "run13"
COQ_CASE_TYPE = "case13"
SHARD = 80
RULE = ("1..14 paths on integer / rational grids (wide and tall drawings whose cells are 4-16 times longer one way than the other, ends on cell borders, in corners, all in one cell, collinear so that one extent comes from the shim only), "
        "bins in {1,2,3,4,10}, reverse on/off; histories interleave nearest queries (inside the grid, outside on each side, exactly on path ends, ties) "
        "with removals until no path remains; run on Fractions and compared query by query with the model; every answer is judged by brute force "
        "over the live ends (neighbourhood rule of the property); non-trivial = history with at least one removal and three queries")
TRUSTED = ["python Fraction arithmetic and math.floor on Fractions are exact", "plot_utils.square_dist on Fractions is exact"]
ASSUMPTIONS = ["at least one path and non-zero extent (otherwise the constructor divides by zero, outside the property)", "removals name distinct valid paths"]

def _pt(rng, mode):
    if mode == 0: return (F(rng.randint(0, 9)), F(rng.randint(0, 9)))
    if mode == 1: return (F(rng.randint(0, 30), 3), F(rng.randint(0, 30), 3))
    if mode == 2: return (F(rng.randint(-50, 50)), F(rng.choice([0, 0, 0, 1])))         # nearly collinear
    if mode == 4: return (F(rng.randint(0, 40), 16), F(rng.randint(0, 40), 16))         # inch-scale drawing: distances below 1 (d and d^2 order differently against 1)
    if mode == 6: return (F(rng.randint(0, 400)), F(rng.randint(0, 100), rng.choice([1, 1, 4])))       # wide drawing (4:1 .. 16:1): cells much wider than tall
    if mode == 7: return (F(rng.randint(0, 60), 2), F(rng.randint(0, 900)))                              # tall drawing: cells much taller than wide
    if mode == 5: return (F(10**8 + rng.randint(-3, 3)), F(rng.randint(-3, 3)))         # far from the origin: squared distances differ in the 17th digit
    return (F(rng.randint(-1000, 1000), rng.randint(1, 7)), F(rng.randint(-1000, 1000), rng.randint(1, 7)))

def generate(rng, tier):
    n = 260 if tier == "quick" else 15000
    cases = []
    for _ in range(n):
        mode = rng.choice([0, 1, 2, 3, 4, 4, 5, 6, 6, 7])
        np_ = rng.choice([1, 1, 2, 3, 4, 6, 9, 14])
        paths = [(_pt(rng, mode), _pt(rng, mode)) for _ in range(np_)]
        if rng.random() < 0.1: paths = [paths[0]] * np_                                    # all the same path (zero extent unless reverse separates the ends)
        bins = rng.choice([1, 2, 3, 3, 4, 10, 10]) if mode != 4 else rng.choice([10, 20, 32, 40]); reverse = rng.random() < 0.5
        alive = list(range(np_)); ops = []
        pts = [p for pa in paths for p in pa]
        xs = [p[0] for p in pts]; ys = [p[1] for p in pts]
        span = max(max(xs) - min(xs), max(ys) - min(ys), F(1))
        for _ in range(rng.randint(3, 3 + 2 * np_)):
            if alive and rng.random() < 0.35:
                i = rng.choice(alive); alive.remove(i); ops.append(("r", i))
            else:
                k = rng.random()
                if mode == 5 and k < 0.35: q = (F(rng.randint(-2, 2)), F(rng.randint(-2, 2)))          # seen from 1e8 away: the ends differ in the 17th digit of the squared distance
                elif k < 0.2: q = (paths[0][0][0] + F(rng.randint(-4, 4), 16), paths[0][0][1] + F(rng.randint(-4, 4), 16))      # next to the start of path 0 (identifier 0)
                elif k < 0.3: q = rng.choice(pts)
                elif k < 0.5: q = (rng.choice(pts)[0] + F(rng.randint(-3, 3), 2), rng.choice(pts)[1] + F(rng.randint(-3, 3), 2))
                elif k < 0.75: q = _pt(rng, mode)
                else: q = (rng.choice([min(xs) - 3 * span, max(xs) + 3 * span, _pt(rng, mode)[0]]), rng.choice([min(ys) - span, max(ys) + 5 * span, _pt(rng, mode)[1]]))
                ops.append(("q", q))
        while alive and rng.random() < 0.5:
            i = alive.pop(); ops.append(("r", i)); ops.append(("q", rng.choice(pts)))
        cases.append({"paths": paths, "bins": bins, "reverse": reverse, "ops": ops, "family": "mode%d/bins%d/%s" % (mode, bins, "rev" if reverse else "fwd")})
    # oblong cells: the query sits close to a long wall of its cell; an end in its own cell is farther away than that wall but nearer
    # than the cell is long, and a closer end lies just across the wall (in the cell above / below, or left / right for tall drawings)
    for _ in range(max(16, n // 12)):
        bins = rng.choice([2, 3, 3, 4, 5]); ratio = rng.choice([4, 4, 8, 16]); H = F(rng.choice([100, 60, 90])); W = H * ratio
        ch = H / bins; cw = W / bins
        row = rng.randint(0, bins - 2); col = rng.randint(0, bins - 1)
        wall = ch * (row + 1); cx = cw * col + cw * F(rng.randint(3, 7), 10)
        delta = ch * F(rng.choice([5, 10, 15, 20]), 100)
        d1 = delta * F(rng.choice([15, 20, 30]), 10); eps = delta * F(rng.choice([1, 2, 4]), 10)
        up = rng.random() < 0.5
        q = (cx, wall - delta) if up else (cx, wall + delta)
        A = (cx + rng.choice([0, 1, -1]), wall - delta - d1) if up else (cx + rng.choice([0, 1, -1]), wall + delta + d1)
        Bp = (cx, wall + eps) if up else (cx, wall - eps)
        far = lambda: (F(rng.randint(0, int(W))), F(rng.randint(0, int(H))))
        ends = [(F(0), F(0)), (W, H), A, Bp] + [far() for _ in range(rng.randint(0, 3))]
        paths = [(e, far()) for e in ends]
        tall = rng.random() < 0.3
        if tall:
            paths = [((a[1], a[0]), (b[1], b[0])) for a, b in paths]; q = (q[1], q[0])
        ops = [("q", q)]
        if rng.random() < 0.5: ops = [("q", paths[-1][0]), ("r", len(paths) - 1)] + ops + [("q", q)]
        cases.append({"paths": paths, "bins": bins, "reverse": False, "ops": ops, "family": "oblong-cells/%s/bins%d/ratio%d" % ("tall" if tall else "wide", bins, ratio)})
    # nearly closed paths: the two ends of a path differ by less than any drawing tolerance (a part in 10^9 .. 10^12) yet are distinct
    # points, and a query beyond the end is nearer to the end than to the start: with reversal allowed the end's identifier is the answer
    for _ in range(max(12, n // 16)):
        np_ = rng.choice([1, 2, 3, 5]); paths = []
        for _ in range(np_):
            a = (F(rng.randint(10, 90)), F(rng.randint(10, 90))); t = F(1, 10 ** rng.choice([9, 10, 12]))
            d = rng.choice([(t, F(0)), (F(0), t), (-t, F(0)), (t, t), (F(0), F(0))])
            paths.append((a, (a[0] + d[0], a[1] + d[1])))
        ops = []
        for _ in range(rng.randint(2, 6)):
            a, b = rng.choice(paths); k = rng.choice([1, 3, F(1, 4)])
            sx = (b[0] > a[0]) - (b[0] < a[0]); sy = (b[1] > a[1]) - (b[1] < a[1])
            ops.append(("q", rng.choice([(b[0] + k * sx, b[1] + k * sy), (a[0] - k * sx, a[1] - k * sy), b, a])))
            if rng.random() < 0.25:
                i = rng.randrange(np_)
                if ("r", i) not in ops: ops.append(("r", i))
        cases.append({"paths": paths, "bins": rng.choice([1, 2, 3, 10]), "reverse": rng.random() < 0.85, "ops": ops, "family": "nearly-closed-paths/n=%d" % np_})
    return cases

def run_impl(c):
    verts = [[[p[0][0], p[0][1]], [p[1][0], p[1][1]]] for p in c["paths"]]
    try:
        ix = spatial_grid.Index(verts, c["bins"], c["reverse"])
    except Exception as e:
        return {"build_raise": type(e).__name__, "ops": []}
    out = []
    shared = [0, 0] if (len(c["ops"]) + c["bins"]) % 2 else None          # half of the histories query with one list object, updated in place (a pen position)
    for kind, arg in c["ops"]:
        try:
            if kind == "q" and shared is not None:
                shared[0], shared[1] = arg[0], arg[1]; out.append(("q", ix.nearest(shared)))
            elif kind == "q": out.append(("q", ix.nearest([arg[0], arg[1]])))
            else: ix.remove_path(arg); out.append(("r", None))
        except Exception as e:
            out.append(("x", type(e).__name__))
    return {"ops": out}

def _p(p):
    return "(%s, %s)%%Q" % (cq(p[0]), cq(p[1]))

def coq_case(c, r):
    vs = clist(["(%s, %s)" % (_p(a), _p(b)) for a, b in c["paths"]])
    braise = "build_raise" in r or "raise" in r
    ops = []
    for (kind, arg), res in zip(c["ops"], r.get("ops", [])):
        if kind == "q":
            if res[0] == "x": ops.append("(ONearest %s None)" % _p(arg))
            else: ops.append("(ONearest %s (Some %s))" % (_p(arg), "None" if res[1] is None else "(Some %s)" % cnat(res[1])))
        else:
            ops.append("(ORemove %s %s)" % (cnat(arg), cb(res[0] == "x")))
    return "(K13 %s %s %s %s %s)" % (vs, cz(c["bins"]), cb(c["reverse"]), cb(braise), clist(ops))

def nontrivial(c, r):
    return sum(1 for o in c["ops"] if o[0] == "r") >= 1 and sum(1 for o in c["ops"] if o[0] == "q") >= 3 and "build_raise" not in r

def explain(c, r):
    return {"paths": [[(str(a[0]), str(a[1])), (str(b[0]), str(b[1]))] for a, b in c["paths"]], "bins": c["bins"], "reverse": c["reverse"],
            "history": [(k, (str(a[0]), str(a[1])) if k == "q" else a) for k, a in c["ops"]], "results": r.get("ops"), "build": r.get("build_raise")}

def shrink(c):
    ops = c["ops"]
    for i in range(len(ops)):
        if ops[i][0] == "q" or True:
            yield dict(c, ops=ops[:i] + ops[i + 1:])
    if len(c["paths"]) > 1:
        # drop the last path if no op refers to it
        last = len(c["paths"]) - 1
        if all(not (k == "r" and a == last) for k, a in ops):
            yield dict(c, paths=c["paths"][:-1])


def static_obligations(work, tier):
    """the loop-free kernels are re-translated from /repo's source on every run and proved equal to the hand model"""
    return common.kernel_obligations(work, ID, "plotink/plot_utils.py", ['square_dist'])
