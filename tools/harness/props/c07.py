"""C07 legacy serial primitives ebb_serial.query / ebb_serial.command."""
import serial
from common import cb, clist, ctext, cnat
from props import ebb3sim as S
from plotink import ebb_serial

ID = "C07"
DEC = True             # reading of the retry loop of query the implementation is compared with (False = as found at 547df41: undecoded bytes, True = repaired)
COQ_HEADER = "From Plotink Require Import Base.Prelude Base.PyStr Model.Serial3 Model.SerialLegacy Corr.C07.\nOpen Scope Z_scope."
COQ_RUN = "run07"
COQ_CASE_TYPE = "case07"
SHARD = 40
RULE = ("sequences of 1..6 legacy requests (OK-terminated queries, the documented no-OK queries a/i/mr/pi/qm/qg/v in any case and with arguments, commands, "
        "missing port / missing text) against the conforming legacy board: each reply line preceded by 0, 1, 99, 100 or 101 empty reads at each of its positions; "
        "plus one disturbance: an I/O exception (pyserial's SerialException / SerialTimeoutException / PortNotOpenError, a plain OSError, or a RuntimeError carrying no error number) at the write (attempts are counted) or at any read, an error line, total silence; "
        "non-trivial = a reply preceded by at least one empty read, or a disturbance")
TRUSTED = ["pyserial behaviour = fake port", "the conforming legacy board: data line then OK for ordinary queries, one line for the no-OK queries, OK for commands"]
ASSUMPTIONS = ["ASCII replies; faults are SerialException"]

QUERIES = ["QB\r", "QS\r", "QC\r", "QP\r", "QL\r", "QT\r", "QE\r", "QR\r", "PI,E,0\r", "V\r", "v\r", "QM\r", "QG\r", "I\r", "A\r", "MR\r", " qg \r", "PI,C,1\r", "i,2\r",
           "QT{}\r", "QL,{0}\r", "Q%s\r", " " * 66 + "qg\r", "QL," + "0" * 64 + "1\r",
           "\r", "?\r", ",1\r", "  \r"]               # texts without a leading name (a bare CR flushes a half-typed command): written once like any other               # text that a logging/formatting layer could mistake for a template
COMMANDS = ["EM,1,1\r", "SP,1\r", "SM,10,0,0\r", "TP\r", "RB\r", "SC,4,100\r", "LM,1,2,3,4,5,6\r", "ST,{AxiDraw}\r", "SM,{0},1\r", "ST,100%d\r", "SL,{\r", "ST,}x{\r",
            "LM,2147483647,-2147483648,2147483647,2147483647,-2147483648,2147483647,3\r", "SM,16777215,-2147483648,2147483647\r", "\r", "?\r", ",1\r"]      # requests longer than one 64-byte USB packet
NOOK = ["a", "i", "mr", "pi", "qm", "qg", "v"]

def _reply(rng, kind, text, k):
    """events of a conforming legacy board for one request; returns (events, data line or None)"""
    def empties(): return ["E"] * rng.choice([0, 0, 0, 1, 2, 99, 100])
    if kind == "c":
        return ["E"] + empties() + [("L", "OK")], None
    # the data line: usually text; sometimes blank (an unnamed board answers QT with an empty line) or only blanks
    data = rng.choice(["D%d,%d" % (k, rng.randint(0, 999))] * 6 + ["", " ", "OK", "0"])
    nm = text.split(",")[0].strip().lower()
    if nm == "v" and rng.random() < 0.7:           # what a board answers to V
        data = "EBBv13_and_above EB Firmware Version " + rng.choice(["2.8.1", "2.5.3", "2.7.0", "3.0.2"])
    ev = ["E"] + empties() + [("L", data)]
    if nm not in NOOK:
        ev += empties() + [("L", "OK")]
    return ev, data + "\r\n"

def generate(rng, tier):
    n = 300 if tier == "quick" else 25000
    cases = []
    for _ in range(n):
        hp = rng.random() < 0.95
        reqs, parts, exps = [], [], []
        for k in range(rng.randint(1, 6)):
            if rng.random() < 0.06:
                reqs.append((rng.choice("qc"), None)); parts.append([]); exps.append(None); continue
            kind = "q" if rng.random() < 0.65 else "c"
            text = rng.choice(QUERIES if kind == "q" else COMMANDS)
            ev, data = _reply(rng, kind, text, k)
            reqs.append((kind, text)); parts.append(ev); exps.append(data)
        fam = "conforming"
        d = rng.random()
        if d < 0.45 and hp:
            j = rng.randrange(len(parts))
            if parts[j]:
                i = rng.randrange(len(parts[j])); kk = rng.random()
                if kk < 0.4:
                    # the data line of request j is the first line of its exchange: delivered before the fault or not
                    delivered = any(isinstance(e, tuple) for e in parts[j][:i])
                    parts[j][i] = "F"; fam = "fault"
                    if reqs[j][0] == "q" and reqs[j][1] is not None:
                        fault_exp = (exps[j] if delivered else "")       # "the data line belonging to that request, or an empty string when nothing arrived"
                    else:
                        fault_exp = None
                elif kk < 0.55: parts[j][i:] = ["E"] * 205; fam = "silence"
                elif kk < 0.75: parts[j][i:i] = ["E"] * rng.choice([1, 101]); fam = "late101" 
                else:
                    if parts[j][i] != "E": parts[j][i] = ("L", "!Err: oops"); fam = "errline"
                if fam == "fault":
                    exps = exps[:j] + [fault_exp] + [None] * (len(exps) - j - 1)      # earlier requests stay judged; later ones may be misaligned
                else:
                    exps = [None] * len(exps) if fam != "conforming" else exps
        cases.append({"has_port": hp, "reqs": reqs, "events": sum(parts, []), "expect": exps if hp else [None] * len(exps), "family": fam if hp else "no-port"})
        if fam == "fault" and hp:
            cases[-1]["fault_cls"] = rng.choice(["SerialException", "SerialTimeoutException", "SerialTimeoutException", "OSError", "PortNotOpenError", "RuntimeError", None])
    # the same query two or three times on one open port, other requests in between: each one is written, each one returns the line
    # that arrived for it (a board answers V with its version text every time it is asked)
    for _ in range(max(12, n // 12)):
        text = rng.choice(["V\r", "V\r", "v\r", "QB\r", "QT\r", "QP\r", "QG\r"])
        reqs, parts, exps = [], [], []
        for k in range(rng.choice([2, 2, 3])):
            ev, data = _reply(rng, "q", text, k); reqs.append(("q", text)); parts.append(ev); exps.append(data)
            if rng.random() < 0.4:
                k2 = "q" if rng.random() < 0.5 else "c"; t2 = rng.choice(QUERIES if k2 == "q" else COMMANDS)
                ev2, d2 = _reply(rng, k2, t2, 7); reqs.append((k2, t2)); parts.append(ev2); exps.append(d2)
        cases.append({"has_port": True, "reqs": reqs, "events": sum(parts, []), "expect": exps, "family": "same-query-again"})
    # a fault exactly at the write of a request (a full output buffer: pyserial raises SerialTimeoutException, possibly after part of the
    # text has gone out): the request is attempted once, not repeated
    for _ in range(max(10, n // 15)):
        kind = "q" if rng.random() < 0.6 else "c"; text = rng.choice(QUERIES if kind == "q" else COMMANDS)
        after_kind = "q" if rng.random() < 0.5 else "c"; after_text = rng.choice(QUERIES if after_kind == "q" else COMMANDS)
        ev2, data2 = _reply(rng, after_kind, after_text, 1)
        cases.append({"has_port": True, "reqs": [(kind, text), (after_kind, after_text)], "events": ["F"] + ev2, "expect": ["" if kind == "q" else None, data2],
                      "fault_cls": rng.choice(["SerialTimeoutException", "SerialTimeoutException", "SerialException", "OSError", "RuntimeError"]), "family": "fault-at-the-write"})
    # the requests that are exempt from fault reporting (RB, and its look-alikes) with a fault at the write, at the first read and at a
    # later read, every exception class: exempt from reporting is not exempt from returning normally
    for text in ("RB\r", "rb\r", " RB \r", "R\r", "BL\r", "RB,1\r", "QR\r"):
        for kind in ("c", "q"):
            for ev in (["F"], ["E", "F"], ["E", "E", "F"], ["E", ("L", "!Err: x"), "F"]):
                for cls in ("SerialException", "OSError", "SerialTimeoutException", "RuntimeError"):
                    if rng.random() < (0.5 if tier == "quick" else 1.0):
                        cases.append({"has_port": True, "reqs": [(kind, text), ("q", "QB\r")], "events": list(ev) + _reply(rng, "q", "QB\r", 1)[0], "expect": [None, None],
                                      "fault_cls": cls, "family": "fault-on-an-exempt-request"})
    # the host application has switched on debug logging (root logger at DEBUG with a handler): what is logged is not what is sent
    for c in cases:
        if rng.random() < 0.12: c["debug_logging"] = True; c["family"] += "/debug-logging"
    return cases

def run_impl(c):
    if c.get("debug_logging"):
        import common
        with common.debug_logging():
            return _run_impl(c)
    return _run_impl(c)

def _run_impl(c):
    script = S.Script(c["events"])
    port = S.FakePort(script) if c["has_port"] else None
    if port is not None and c.get("fault_cls"):
        port.force_fault = {"SerialException": serial.SerialException, "SerialTimeoutException": serial.SerialTimeoutException, "OSError": OSError,
                            "PortNotOpenError": serial.serialutil.PortNotOpenError, "RuntimeError": RuntimeError}[c["fault_cls"]]
    obs = []
    for kind, text in c["reqs"]:
        bw = len(port.writes) if port else 0; bc = script.consumed; ba = port.write_attempts if port else 0
        raised, ret = None, None
        try:
            ret = ebb_serial.query(port, text, False) if kind == "q" else ebb_serial.command(port, text, False)
        except BaseException as e:
            raised = type(e).__name__
        if port is not None and port.write_attempts - ba > 1 and raised is None:
            raised = "WroteTwice"             # "write the request exactly once": a second attempt after a failed write is a second write
        is_str = isinstance(ret, str)
        rt = None if ret is None else (ret if isinstance(ret, str) else bytes(ret).decode("latin-1"))
        writes = [d.decode("latin-1") for d in (port.writes[bw:] if port else [])]
        obs.append({"raised": raised, "ret": rt, "is_str": is_str, "writes": writes, "consumed": script.consumed - bc})
    return {"obs": obs}

def coq_case(c, r):
    if "raise" in r:
        return "(K07 %s true [] [(LQuery (Some []), mklobs true None false [] 0%%nat, None)])" % cb(DEC)
    items = []
    for (kind, text), o, ex in zip(c["reqs"], r["obs"], c["expect"]):
        t = "None" if text is None else "(Some %s)" % ctext(text)
        rq = "(LQuery %s)" % t if kind == "q" else "(LCommand %s)" % t
        ob = "(mklobs %s %s %s %s %s)" % (cb(o["raised"] is not None), "None" if o["ret"] is None else "(Some %s)" % ctext(o["ret"]),
                                          cb(o["is_str"]), clist([ctext(w) for w in o["writes"]]), cnat(o["consumed"]))
        items.append("(%s, %s, %s)" % (rq, ob, "None" if ex is None else "(Some %s)" % ctext(ex)))
    return "(K07 %s %s %s %s)" % (cb(DEC), cb(c["has_port"]), S.coq_script(c["events"]), clist(items))

def nontrivial(c, r):
    ev = c["events"]
    return c["family"] != "conforming" or any(ev[i] == "E" and ev[i - 1] == "E" for i in range(1, len(ev)))

def explain(c, r):
    return {"requests": c["reqs"], "script": [e if isinstance(e, str) else e[1] for e in c["events"]][:60] + (["..."] if len(c["events"]) > 60 else []),
            "n_events": len(c["events"]), "expect": c["expect"], "observed": r.get("obs")}

def _bytes_str(c, r):
    """finding class D2: query raises TypeError ('Err:' in <bytes>) whenever its first read is empty (late reply or timeout)"""
    obs = r.get("obs", [])
    bad = [o for o in obs if o["raised"] is not None]
    return bool(bad) and all(o["raised"] == "TypeError" for o in bad)
FINDING_CLASSES = {"legacy_query_typeerror_on_late_reply": _bytes_str}

def shrink(c):
    reqs = c["reqs"]
    if len(reqs) > 1:
        # keep prefixes: the script is positional
        yield dict(c, reqs=reqs[:-1], expect=c["expect"][:-1])
