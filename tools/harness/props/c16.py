"""C16 board-state round trips through the EBB3 layer: int32 variables, nickname, motor enable protocol."""
import serial
from common import cz, cb, clist, ctext, cnat
from props import ebb3sim as S
from plotink import ebb3_motion, ebb3_serial

ID = "C16"
CFG = (True, True, True, True)
COQ_HEADER = "From Plotink Require Import Base.Prelude Base.PyStr Model.Serial3 Spec.Board Corr.S3 Corr.C16.\nOpen Scope Z_scope."
COQ_RUN = "run16"
COQ_CASE_TYPE = "case16"
SHARD = 60
RULE = ("the client runs against an interactive fake board (python) whose every reply is re-derived from Spec/Board.v inside Coq; "
        "int32 values {0, +-1, +-2^31 edge, byte boundaries, random} x slots 0..28 written then read back; renaming a board whose name the object already knows (other letter case, padded, prefix, extension); nicknames with surrounding blanks and with leading Q / T / comma characters (systematic list + random); "
        "all 36 clamped (r1, r2) requests (and out-of-range arguments) from all 20 prior board motor states, systematically, runs of 3..5 motor requests on one object (every ordered pair of different scales as: scale a, then motor 2 only at b, then motor 2 only at a), and random sequences of 3..12 such operations; "
        "non-trivial = a motors_enable request from an enabled prior state, or an int32 with a non-zero high byte")
TRUSTED = ["the EBB board model Spec/Board.v (SL/QL/ST/QT/EM/QE/CU as documented in the repository's docstrings): assumed, no firmware source offline",
           "the python fake board is validated against Spec/Board.v on every run (code 4 on any difference)"]
ASSUMPTIONS = ["int32 values in [-2^31, 2^31), slots 0..28; the board answers every request, at once or after up to 25 timed-out reads"]

class PyBoard:
    """independent python implementation of the documented board behaviour"""
    def __init__(self, slots, nick, en1, en2, mode):
        self.slots, self.nick, self.en1, self.en2, self.mode = list(slots), nick, en1, en2, mode
    def step(self, line):
        f = line.split(",")
        nm = f[0]
        try:
            if nm == "SL":
                v, i = int(f[1]), int(f[2])
                if len(f) != 3: return "!2 Err: Invalid parameter"
                if 0 <= v <= 255 and 0 <= i <= 31: self.slots[i] = v; return "SL"
                return "!3 Err: Argument outside allowed range"
            if nm == "QL":
                if len(f) != 2: return "!2 Err: Invalid parameter"
                i = int(f[1])
                return "QL,%d" % self.slots[i] if 0 <= i <= 31 else "!3 Err: Argument outside allowed range"
            if nm == "ST": self.nick = line[3:]; return "ST"
            if nm == "QT": return "QT," + self.nick
            if nm == "EM":
                if len(f) != 3: return "!2 Err: Invalid parameter"
                e1, e2 = int(f[1]), int(f[2])
                if not (0 <= e1 <= 5 and 0 <= e2 <= 5): return "!3 Err: Argument outside allowed range"
                self.en1, self.en2 = e1 != 0, e2 != 0
                if e1 != 0: self.mode = e1
                return "EM"
            if nm == "QE":
                code = {1: 16, 2: 8, 3: 4, 4: 2, 5: 1}[self.mode]
                return "QE,%d,%d" % (code if self.en1 else 0, code if self.en2 else 0)
            if nm == "CU": return "CU"
        except (ValueError, IndexError):
            return "!2 Err: Invalid parameter"
        return "!8 Err: Unknown command"

class BoardPort(S.PortExtras):
    def __init__(self, board, slow=0):
        self.board, self.queue, self.log, self.writes = board, [], [], []
        self.slow = slow                      # reads that time out before each reply arrives (a busy board, a slow USB hub)
    def write(self, data):
        self.log.append("E"); self.writes.append(data)
        t = data.decode("ascii")
        self.queue += [None] * self.slow + [self.board.step(t[:-1] if t.endswith("\r") else t)]
        return len(data)
    def readline(self):
        if self.queue:
            r = self.queue.pop(0)
            if r is None: self.log.append("E"); return b""
            self.log.append(("L", r)); return r.encode("ascii") + b"\r\n"
        self.log.append("E"); return b""
    def close(self): pass
    def reset_input_buffer(self): pass

def _board(rng):
    return {"slots": [rng.randint(0, 255) for _ in range(32)], "nick": rng.choice(["", "Bot", "Axi Draw", "Tom", "QT", ",odd", "Quill"]),
            "en1": rng.random() < 0.5, "en2": rng.random() < 0.5, "mode": rng.randint(1, 5)}

# nicknames: ordinary ones, padded ones, and ones whose first characters are the letters of the QT query name or the separator
# (a reply is the name, one comma, then the payload verbatim: 'QT,Tom', 'QT,,odd', 'QT,QT')
NICKS = ["Bot", " Axi ", "Plotter 7", "x" * 16, "a b", "Tom", "Quill", "QT", "TQ", "TTT", "Q", "T", ",odd", ",,x", "T,Q", "QT,QT", "qt", " Tim\t", "Q Q",
         "East  Lab", " Plotter   No 2 ", "Rack\t4", "a \t b",
         "  abcdefghijklmnop", "   North Studio #07", "\t\t Sixteen chars ok", " " * 9 + "Plotter-in-room4",      # long paddings around a name that fits: trimming comes first
         "Terry", "Cherry pie", "ERROL", "err", "Err", "Ferry:1", "berr: y", "OK", "!8"]      # texts that resemble the board's status words without being them (an error line carries 'Err:')          # interior whitespace is part of the name: only the ends are trimmed
def _nick(rng):
    if rng.random() < 0.6: return rng.choice(NICKS)
    return rng.choice("QT,QT,abzAZ09_-. ") + "".join(rng.choice("QT,abcXYZ 019_") for _ in range(rng.randint(0, 8)))

INTS = [0, 1, -1, 2**31 - 1, -2**31, 255, 256, -256, 65535, 65536, -65536, 2**24, -2**24 - 1, 0x12345678, -0x12345678]

def generate(rng, tier):
    cases = []
    # systematic: all clamped requests (plus out-of-range arguments) from every prior motor state
    states = [(e1, e2, m) for e1 in (False, True) for e2 in (False, True) for m in range(1, 6)]
    reqs = [(a, b) for a in range(0, 6) for b in range(0, 6)] + [(-1, 3), (7, 0), (0, 9), (-3, -3), (6, 6)]
    step = 1 if tier != "quick" else 3
    for si, (e1, e2, m) in enumerate(states):
        for ri, (a, b) in enumerate(reqs):
            if (si + ri) % step: continue
            bd = _board(rng); bd.update(en1=e1, en2=e2, mode=m)
            cases.append({"board": bd, "calls": [("motors_on", a, b), ("motors_query",)], "family": "motors/systematic"})
    # runs of 3..5 motor requests on one object, each followed by the read-back: whatever the object remembers of its earlier requests
    # (and of what the board told it) must not change the outcome of a later one; single-motor requests dominate
    single = [(a, 0) for a in range(1, 6)] + [(0, b) for b in range(1, 6)]
    pairs = [(a, b) for a in range(1, 6) for b in range(1, 6) if a != b]
    for (a, b) in pairs[:: (1 if tier != "quick" else 2)]:
        first = rng.choice([(a, a), (a, 0), (a, rng.randint(1, 5))])
        mid = [rng.choice([(0, 0), (0, b)])] if rng.random() < 0.4 else []
        seq = [first, (0, b)] + mid + [(0, a)]
        cases.append({"board": _board(rng), "calls": sum([[("motors_on",) + r, ("motors_query",)] for r in seq], []), "family": "motors/runs-of-requests"})
    for _ in range(30 if tier == "quick" else 3000):
        seq = [rng.choice(single + single + [(rng.randint(0, 5), rng.randint(0, 5))]) for _ in range(rng.randint(3, 5))]
        calls = sum([[("motors_on",) + r, ("motors_query",)] for r in seq], [])
        if rng.random() < 0.2: calls.insert(rng.randrange(len(calls)), ("motors_off",))
        cases.append({"board": _board(rng), "calls": calls, "family": "motors/runs-of-requests"})
    # the variable store is the user's: whatever it holds (small numbers that look like scales, in the last slots too - the low byte of
    # a 32-bit value at slot 28 is slot 31) must not influence a motor request, and a motor request must not touch it
    for r2 in range(1, 6):
        for md in range(1, 6):
            if md == r2 and rng.random() < 0.7: continue
            bd = _board(rng); bd.update(en1=False, en2=False, mode=md); bd["slots"] = [rng.choice([r2, 0, 1, 5]) for _ in range(28)] + [0, 0, 0, r2]
            pre = rng.choice([[], [("var_write32", r2, 28)], [("var_write", r2, 31), ("var_write", md, 30)]])
            cases.append({"board": bd, "calls": pre + [("motors_on", 0, r2), ("motors_query",), ("var_read", 31), ("var_read32", 28)], "family": "motors/variable-store-holds-scales"})
    for nk in NICKS:
        cases.append({"board": _board(rng), "calls": [("write_nick", nk), ("query_nick",), ("query", "QT"), ("query_nick",)], "family": "nickname/systematic"})
    # renaming a board the object already knows: to another spelling of the same letters, to a padded copy, to a prefix / extension, and back
    for nk in ["NextDraw A3", "Bot", "axi", "East  Lab", "Q", "tOm"] + ([_nick(rng) for _ in range(6)] if tier != "quick" else []):
        alt = [nk.swapcase(), " " + nk.upper() + " ", nk.lower(), nk + "x", nk[:-1], nk, "\t" + nk.title()]
        calls = [("write_nick", nk), ("query_nick",)]
        for a2 in alt: calls += [("write_nick", a2), ("query_nick",), ("query", "QT")]
        cases.append({"board": _board(rng), "calls": calls, "family": "nickname/rename-known-board"})
    # overlapping values: a 4-byte value at slot s, then a write that covers some of its slots (another 4-byte value at s +- 1..3, or a single
    # byte inside it), then the first value again at s (or a read of s): what the board holds is what was written last, slot by slot
    for _ in range(40 if tier == "quick" else 1500):
        s0 = rng.randint(3, 25); v = rng.choice(INTS + [rng.randint(-2**31, 2**31 - 1)]); w = rng.choice(INTS + [rng.randint(-2**31, 2**31 - 1)])
        d = rng.choice([1, 2, 3, -1, -2, -3])
        over = rng.choice([[("var_write32", w, s0 + d)], [("var_write32", w, s0 + d)], [("var_write", rng.randint(0, 255), s0 + rng.randint(0, 3))],
                           [("var_write32", w, s0 + d), ("var_write32", v, s0 + d)]])
        tail = rng.choice([[("var_write32", v, s0), ("var_read32", s0)], [("var_read32", s0)], [("var_write32", v, s0), ("var_read32", s0), ("var_read32", s0 + d)]])
        calls = [("var_write32", v, s0), ("var_read32", s0)] + over + tail + [("var_read", s0 + k) for k in range(4)]
        cases.append({"board": _board(rng), "calls": calls, "family": "int32/overlapping-writes"})
    n = 150 if tier == "quick" else 9000
    for _ in range(n):
        calls = []
        for _ in range(rng.randint(3, 12)):
            k = rng.random()
            if k < 0.3:
                v = rng.choice(INTS + [rng.randint(-2**31, 2**31 - 1)]); i = rng.randint(0, 28)
                calls += [("var_write32", v, i), ("var_read32", i)]
            elif k < 0.4: calls.append(("var_read32", rng.randint(0, 28)))
            elif k < 0.5: i = rng.randint(0, 31); calls += [("var_write", rng.randint(0, 255), i), ("var_read", i)]
            elif k < 0.65: calls += [("write_nick", _nick(rng)), ("query_nick",)]
            elif k < 0.9: calls += [("motors_on", rng.randint(-1, 6), rng.randint(-1, 6)), ("motors_query",)]
            else: calls.append(("motors_off",))
        cases.append({"board": _board(rng), "calls": calls, "family": "sequence"})
    # one object, two boards: a session on one board (same writes, no reads), the port closed, then the same object on another board
    # (or the same one after a power cycle: its volatile variable store and motor state are back to other values): what the object
    # remembers of the first session must not stand in for a transfer to the second board
    for _ in range(40 if tier == "quick" else 2000):
        ops = []
        for _ in range(rng.randint(1, 4)):
            k = rng.random()
            if k < 0.45: ops.append(("var_write32", rng.choice(INTS + [rng.randint(-2**31, 2**31 - 1)]), rng.randint(0, 28)))
            elif k < 0.65: ops.append(("var_write", rng.randint(0, 255), rng.randint(0, 31)))
            elif k < 0.8: ops.append(("write_nick", _nick(rng)))
            else: ops.append(("motors_on", rng.randint(1, 5), rng.randint(0, 5)))
        back = {"var_write32": lambda o: ("var_read32", o[2]), "var_write": lambda o: ("var_read", o[2]), "write_nick": lambda o: ("query_nick",), "motors_on": lambda o: ("motors_query",)}
        pre = list(ops) if rng.random() < 0.7 else sum([[o, back[o[0]](o)] for o in ops], [])
        calls = sum([[o, back[o[0]](o)] for o in ops], [])
        cases.append({"board": _board(rng), "pre_board": _board(rng), "pre_calls": pre, "pre_disconnect": rng.random() < 0.7, "calls": calls, "family": "after-a-session-on-another-board"})
    # a board that answers correctly but late: 1..25 reads time out before every reply (the client waits through up to 25)
    for c in list(cases):
        if rng.random() < 0.3:
            cases.append(dict(c, slow=rng.choice([1, 3, 4, 5, 10, 24, 25]), family=c["family"] + "/slow-board"))
    return cases

def run_impl(c):
    bd = c["board"]
    port = BoardPort(PyBoard(bd["slots"], bd["nick"], bd["en1"], bd["en2"], bd["mode"]), c.get("slow", 0))
    obj = ebb3_motion.EBBMotionWrap()
    obj.port = port
    obj.version = "3.0.3"; obj.version_parsed = ebb3_serial.parse("3.0.3")
    if "pre_calls" in c:
        pb = c["pre_board"]
        obj.port = BoardPort(PyBoard(pb["slots"], pb["nick"], pb["en1"], pb["en2"], pb["mode"]), 0)
        for call in c["pre_calls"]:
            try: S.do_call(obj, call)
            except BaseException: pass
        if c["pre_disconnect"]:
            try: obj.disconnect()
            except BaseException: pass
        obj.port = port; obj.name = None
    obs = []
    for call in c["calls"]:
        bw, bl = len(port.writes), len(port.log)
        raised, ret = None, None
        try: ret = S.do_call(obj, call)
        except BaseException as e: raised = type(e).__name__
        writes = []
        for d in port.writes[bw:]:
            t = d.decode("latin-1"); writes.append(t[:-1] if t.endswith("\r") else t + "<noCR>")
        obs.append({"raised": raised, "ret": ret, "writes": writes, "err": S.err_kind(obj.err), "err_text": obj.err,
                    "port": obj.port is not None, "name": obj.name, "consumed": len(port.log) - bl})
    return {"obs": S.jsonable_obs(obs), "log": [e if isinstance(e, str) else list(e) for e in port.log]}

def coq_case(c, r):
    if "raise" in r:
        return "(K16 %s board0 [] [(CStatus, mkobs true RNone [] None true None 0%%nat)])" % S.coq_cfg(*CFG)
    bd = c["board"]
    b0 = "(mkboard %s %s %s %s %s)" % (clist([cz(v) for v in bd["slots"]]), ctext(bd["nick"]), cb(bd["en1"]), cb(bd["en2"]), cz(bd["mode"]))
    log = [e if isinstance(e, str) else tuple(e) for e in r["log"]]
    return "(K16 %s %s %s %s)" % (S.coq_cfg(*CFG), b0, S.coq_script(log), S.coq_history(c["calls"], r["obs"]))

def nontrivial(c, r):
    bd = c["board"]
    return any(k[0] == "motors_on" for k in c["calls"]) and (bd["en1"] or bd["en2"]) or any(k[0] == "var_write32" and abs(k[1]) >= 2**24 for k in c["calls"])

def explain(c, r):
    return {"timed_out_reads_before_each_reply": c.get("slow", 0), "board": {k: v for k, v in c["board"].items() if k != "slots"}, "calls": [list(map(str, x)) for x in c["calls"]],
            "io_log": [e if isinstance(e, str) else e[1] for e in r.get("log", [])][:60],
            "observed": [{k: o[k] for k in ("raised", "ret", "writes", "err")} for o in r.get("obs", [])]}

def shrink(c):
    calls = c["calls"]
    for i in range(len(calls)):
        yield dict(c, calls=calls[:i] + calls[i + 1:])
