"""Shared driver for the EBB3 / EBBMotionWrap properties (C04, C05, C06, C15, C16):
a fake serial port fed by an I/O script, a runner that records what every public call did, and the Coq encoders."""
import serial
from common import cz, cb, clist, ctext, copt, cnat
from plotink import ebb3_serial, ebb3_motion

GOOD_VERSION = "EBBv13_and_above EB Firmware Version 3.0.3"

# ------------------------------------------------------------------ fake port
class Script:
    def __init__(self, events):
        self.events = list(events)
        self.consumed = 0
    def next(self):
        if self.events:
            self.consumed += 1
            return self.events.pop(0)
        return None

class PortExtras:
    """the rest of pyserial's Serial interface, as harmless no-ops / plausible constants: code under test may legitimately call any of it
    (flushing, buffer resets, open-state and timeout attributes); only write / readline / close carry meaning for the properties"""
    is_open = True; timeout = 1.0; write_timeout = None; baudrate = 9600; in_waiting = 0; out_waiting = 0; name = "/dev/ttyACM0"; port = "/dev/ttyACM0"
    def flush(self): pass
    def reset_input_buffer(self): pass
    def reset_output_buffer(self): pass
    def flushInput(self): pass
    def flushOutput(self): pass
    def isOpen(self): return True
    def inWaiting(self): return 0
    def cancel_read(self): pass
    def cancel_write(self): pass
    def open(self): pass
    def readable(self): return True
    def writable(self): return True
    def __enter__(self): return self
    def __exit__(self, *a): self.close(); return False


class FakePort(PortExtras):
    """write / readline consume one script event each; ('L', text) = that line, 'E' = nothing arrives / write ok, 'F' = SerialException"""
    port = "/dev/ttyACM0"          # pyserial's Serial objects carry their device name; every fake board here sits on the same one
    def __init__(self, script, close_raises=False):
        self.script = script
        self.writes = []
        self.closed = False
        self.close_raises = close_raises
        self.lines_read = []            # every line handed out by readline (a line that a write consumes is never read)
    # the exception classes a failing port raises: pyserial's own, and the OS-level ones that can come through it
    FAULTS = [serial.SerialException, serial.SerialException, OSError, serial.SerialTimeoutException, BrokenPipeError, serial.SerialException,
              IOError, TimeoutError, serial.serialutil.PortNotOpenError, ConnectionResetError, RuntimeError]
    NARROW = [serial.SerialException, serial.SerialTimeoutException, serial.serialutil.PortNotOpenError]
    wide_faults = True       # False while connect / reboot / bootload run: those contain pyserial's exceptions only (see DESIGN.md 0.6)
    force_fault = None       # a harness may pin the exception class of every injected fault (e.g. SerialTimeoutException at the write)
    write_attempts = 0
    faults_raised = 0
    def fault(self, where):
        self.faults_raised += 1
        pool = self.FAULTS if self.wide_faults else self.NARROW
        if self.force_fault is not None: pool = [self.force_fault]
        cls = pool[self.script.consumed % len(pool)]
        if cls is serial.serialutil.PortNotOpenError:
            return cls()
        # an I/O exception is an I/O exception whatever error number it carries: every third one carries a "try again" / "interrupted"
        # number (EAGAIN, EWOULDBLOCK, EINTR), the others EIO or none
        k = (self.script.consumed // max(1, len(pool))) % 3
        if self.wide_faults and self.script.consumed % 4 == 3: return cls()          # an exception raised without any argument (args == ())
        if issubclass(cls, serial.SerialException):
            if k == 1 and self.wide_faults: return cls([11, 4, 11][self.script.consumed % 3], "Resource temporarily unavailable (injected fault on %s)" % where)
            return cls("injected fault on %s" % where)
        if cls is RuntimeError: return cls("injected fault on %s" % where)           # no error number, no further attributes
        if k == 1: return cls([11, 4, 35][self.script.consumed % 3], "Resource temporarily unavailable (injected fault on %s)" % where)
        return cls(5, "Input/output error (injected fault on %s)" % where)
    def write(self, data):
        self.write_attempts += 1
        ev = self.script.next()
        if ev == "F":
            raise self.fault("write")
        self.writes.append(data)
        return len(data)
    def readline(self):
        ev = self.script.next()
        if ev == "F":
            raise self.fault("read")
        if ev is None or ev == "E":
            return b""
        self.lines_read.append(ev[1])
        return ev[1].encode("ascii") + b"\r\n"
    def close(self):
        self.closed = True
        if self.close_raises == "os":       # an unplugged device: the operating system refuses the close with a plain OSError
            raise OSError(5, "Input/output error (injected fault on close)")
        if self.close_raises:               # a device that has dropped off the bus: the close itself fails (no script event is consumed)
            raise serial.SerialException("injected fault on close")
    def reset_input_buffer(self):
        pass
    def flushInput(self):
        pass

def install(script, ports, close_raises=False):
    """rebind comports and serial.Serial as seen by ebb3_serial; returns the shared FakePort"""
    fp = FakePort(script, close_raises)
    def fake_serial(name=None, *args, **kwargs):          # whatever further arguments the code opens the port with (timeouts, baud rate)
        ev = script.next()
        if ev == "F":
            raise serial.SerialException("injected fault on open")
        return fp
    ebb3_serial.comports = lambda: list(ports)
    ebb3_serial.serial.Serial = fake_serial
    return fp

REAL_SERIAL = serial.Serial
def uninstall():
    ebb3_serial.serial.Serial = REAL_SERIAL

ERR_PREFIX = [("EBB Serial Timeout", 1), ("\nUnexpected response from EBB.", 2), ("USB communication error", 3), ("Error reported by EBB.", 4),
              ("Unable to locate", 5), ("Failed to connect via USB", 6), ("Firmware version", 7), ("Error testing USB connection", 8)]
ERR_WORDS = [("timeout", 1), ("unexpected", 2), ("usb communication", 3), ("communication error", 3), ("error reported", 4), ("unable to locate", 5),
             ("failed to connect", 6), ("firmware version", 7), ("error testing", 8)]
def err_kind(msg):
    """the kind of a recorded message: by its documented beginning, else by a characteristic word, else 99 = "some error" (a reworded
    message is not a reason for an alarm: the properties speak of an error being recorded and kept, not of its wording)"""
    if msg is None:
        return None
    for p, k in ERR_PREFIX:
        if msg.startswith(p):
            return k
    low = str(msg).lower()
    for w, k in ERR_WORDS:
        if w in low:
            return k
    return 99

# ------------------------------------------------------------------ calls
# a call is (method, args...) ; methods and their Coq constructors
def do_call(obj, call):
    m, a = call[0], call[1:]
    if m == "connect":
        ebb3_serial.comports = lambda: list(a[0])
        return obj.connect(a[1])
    if m == "disconnect": return obj.disconnect()
    if m == "command": return obj.command(a[0])
    if m == "query": return obj.query(a[0])
    if m == "status": return obj.query_statusbyte()
    if m == "reboot": return obj.reboot()
    if m == "bootload": return obj.bootload()
    if m == "var_write": return obj.var_write(a[0], a[1])
    if m == "var_read": return obj.var_read(a[0])
    if m == "var_write32": return obj.var_write_int32(a[0], a[1])
    if m == "var_read32": return obj.var_read_int32(a[0])
    if m == "query_nick": return obj.query_nickname()
    if m == "write_nick": return obj.write_nickname(a[0])
    if m == "pause": return obj.timed_pause(a[0])
    if m == "xy": return obj.xy_move(a[0], a[1], a[2])
    if m == "abs": return obj.abs_move(a[0], a[1], a[2])
    if m == "motors_off": return obj.motors_disable()
    if m == "motors_on": return obj.motors_enable(a[0], a[1])
    if m == "motors_query": return obj.motors_query_enabled()
    if m == "steps": return obj.query_steps()
    if m == "clear_steps": return obj.clear_steps()
    if m == "clear_acc": return obj.clear_accumulators()
    if m == "pen_lower": return obj.pen_lower(a[0], a[1])
    if m == "pen_raise": return obj.pen_raise(a[0], a[1])
    if m == "b_config": return obj.dio_b_config(a[0], a[1], a[2])
    if m == "b_set": return obj.dio_b_set(a[0], a[1])
    if m == "b_read": return obj.dio_b_read(a[0])
    if m == "pos_down": return obj.pen_pos_down(a[0])
    if m == "pos_up": return obj.pen_pos_up(a[0])
    if m == "rate_down": return obj.pen_rate_down(a[0])
    if m == "rate_up": return obj.pen_rate_up(a[0])
    if m == "servo_timeout": return obj.servo_timeout(a[0], a[1])
    if m == "voltage": return obj.query_voltage(a[0])
    if m == "current": return obj.query_current()
    raise KeyError(m)

def _ports(ps):
    return clist(["(%s, %s, %s)" % (ctext(p[0]), ctext(p[1]), ctext(p[2])) for p in ps])
def _oz(v):
    return copt(v, cz)
def _ot(v):
    return "None" if v is None else "(Some %s)" % ctext(v)

def coq_call(call):
    m, a = call[0], call[1:]
    if m == "connect": return "(CConnect %s %s)" % (_ports(a[0]), _ot(a[1]))
    if m == "disconnect": return "CDisconnect"
    if m == "command": return "(CCommand %s)" % ctext(a[0])
    if m == "query": return "(CQuery %s)" % ctext(a[0])
    if m == "write_nick": return "(CWriteNick %s)" % _ot(a[0])
    simple = {"status": "CStatus", "reboot": "CReboot", "bootload": "CBootload", "query_nick": "CQueryNick", "motors_off": "CMotorsOff",
              "motors_query": "CMotorsQuery", "steps": "CSteps", "clear_steps": "CClearSteps", "clear_acc": "CClearAcc", "current": "CCurrent"}
    if m in simple: return simple[m]
    ints = {"var_write": "CVarWrite", "var_read": "CVarRead", "var_write32": "CVarWrite32", "var_read32": "CVarRead32", "pause": "CPause", "xy": "CXY",
            "motors_on": "CMotorsOn", "b_config": "CBConfig", "b_set": "CBSet", "b_read": "CBRead", "pos_down": "CPosDown", "pos_up": "CPosUp",
            "rate_down": "CRateDown", "rate_up": "CRateUp"}
    if m in ints: return "(%s %s)" % (ints[m], " ".join(cz(x) for x in a))
    if m == "abs": return "(CAbs %s %s %s)" % (cz(a[0]), _oz(a[1]), _oz(a[2]))
    if m == "pen_lower": return "(CPenLower %s %s)" % (cz(a[0]), _oz(a[1]))
    if m == "pen_raise": return "(CPenRaise %s %s)" % (cz(a[0]), _oz(a[1]))
    if m == "servo_timeout": return "(CServoTimeout %s %s)" % (cz(a[0]), _oz(a[1]))
    if m == "voltage": return "(CVoltage %s)" % _oz(a[0])
    raise KeyError(m)

def coq_rv(v):
    if v is None: return "RNone"
    if isinstance(v, bool): return "(RBool %s)" % cb(v)
    if isinstance(v, int): return "(RInt %s)" % cz(v)
    if isinstance(v, str): return "(RStr %s)" % ctext(v)
    if isinstance(v, tuple) and len(v) == 2: return "(RPair %s %s)" % (coq_rv(v[0]), coq_rv(v[1]))
    return "(RStr %s)" % ctext("<unencodable %s>" % type(v).__name__)

def coq_event(ev):
    if ev == "E": return "Empty"
    if ev == "F": return "Fault"
    return "(Line %s)" % ctext(ev[1])

def coq_script(events):
    return clist([coq_event(e) for e in events])

# ------------------------------------------------------------------ running a history
def run_history(calls, events, close_raises=False):
    """fresh EBBMotionWrap, one script for the whole history; returns a list of observation dicts"""
    script = Script(events)
    fp = install(script, [], close_raises)
    obj = ebb3_motion.EBBMotionWrap()
    out = []
    recorded = []                       # every message handed to record_error (observed on the instance, no change to the class)
    orig_record = obj.record_error
    marks = []                          # number of writes made so far, at each record_error
    def spy(message):
        recorded.append(message); marks.append(len(fp.writes))
        return orig_record(message)
    obj.record_error = spy
    try:
        for call in calls:
            before_w = len(fp.writes); before_c = script.consumed; before_r = len(recorded); before_l = len(fp.lines_read); before_err = obj.err; before_f = fp.faults_raised
            raised, ret = None, None
            fp.wide_faults = call[0] not in ("connect", "reboot", "bootload", "disconnect")
            try:
                ret = do_call(obj, call)
            except BaseException as e:      # noqa - the harness records, it does not judge here
                raised = type(e).__name__
            writes = []
            for d in fp.writes[before_w:]:
                t = d.decode("latin-1")
                writes.append(t[:-1] if t.endswith("\r") else t + "<noCR>")
            if raised is None and before_err is not None and obj.err != before_err:
                raised = "RecordedErrorReplaced"        # the message recorded first is gone or has been replaced by a later one
            if raised is None and len(recorded) > before_r and obj.err is None:
                raised = "RecordedErrorErased"          # an error was recorded during this call and is gone at its end
            if raised is None and call[0] != "connect" and len(recorded) > before_r and len(fp.writes) > marks[before_r]:
                raised = "WroteAfterRecordedError"      # the request recorded an error and went on transmitting (its later exchanges)
            out.append({"raised": raised, "ret": ret, "writes": writes, "err": err_kind(obj.err), "err_text": obj.err,
                        "port": obj.port is not None, "name": obj.name, "consumed": script.consumed - before_c,
                        "read_err": any("Err:" in l for l in fp.lines_read[before_l:]) or fp.faults_raised > before_f})
    finally:
        uninstall()
    return out

def jsonable_obs(obs):
    return [{k: (list(v) if isinstance(v, tuple) else v) for k, v in o.items()} for o in obs]

def coq_obs(o):
    ret = o["ret"]
    if isinstance(ret, list): ret = tuple(ret)
    return "(mkobs %s %s %s %s %s %s %s)" % (cb(o["raised"] is not None), coq_rv(ret), clist([ctext(w) for w in o["writes"]]),
                                             _oz(o["err"]), cb(o["port"]), _ot(o["name"]), cnat(o["consumed"]))

def coq_history(calls, obs):
    return clist(["(%s, %s)" % (coq_call(c), coq_obs(o)) for c, o in zip(calls, obs)])

def coq_cfg(status, volt, nick, pin):
    return "(mkcfg %s %s %s %s)" % (cb(status), cb(volt), cb(nick), cb(pin))

# ------------------------------------------------------------------ nominal (conforming device) scripts
GOOD_PORTS = [("/dev/ttyACM0", "EiBotBoard", "USB VID:PID=04D8:FD92 SER=ABC LOCATION=1-1")]
def connect_script(version=GOOD_VERSION, nick="Bot"):
    return ["E", "E", ("L", version), "E", ("L", "CU,OK"), "E", ("L", "QT," + nick)]

def nominal(call, rng):
    """the I/O a conforming board produces for one call: a list of events ('E' for every successful write)"""
    m, a = call[0], call[1:]
    def cmd(name): return ["E", ("L", name)]
    def qry(name, payload): return ["E", ("L", name + "," + payload)]
    if m == "connect": return connect_script()
    if m in ("disconnect",): return []
    if m in ("command", "query"):
        t = a[0].strip()
        if not t: return []
        nm = t[0] if (len(t) == 1 or t[1] == ",") else t[:2]
        return cmd(nm) if m == "command" else qry(nm, str(rng.randint(0, 999)))
    if m == "status": return ["E", ("L", "QG,%02X" % rng.randint(0, 255))]
    if m in ("reboot", "bootload"): return ["E"]
    if m == "var_write": return cmd("SL")
    if m == "var_read": return qry("QL", str(rng.randint(0, 255)))
    if m == "var_write32": return cmd("SL") * 4
    if m == "var_read32": return sum([qry("QL", str(rng.randint(0, 255))) for _ in range(4)], [])
    if m == "query_nick": return qry("QT", rng.choice(["Bot", "", "  ", "Axi 2"]))
    if m == "write_nick": return cmd("ST") if a[0] is not None else []
    if m == "pause":
        n = a[0]; k = 0
        while n > 0: d = 750 if n > 750 else max(n, 1); n -= d; k += 1
        return cmd("SM") * k
    if m in ("xy",): return cmd("SM")
    if m == "abs": return cmd("HM")
    if m == "motors_off": return cmd("EM")
    if m == "motors_query": return qry("QE", "%d,%d" % (rng.choice([0, 1, 2, 4, 8, 16]), rng.choice([0, 1, 2, 4, 8, 16])))
    if m == "motors_on":
        r1 = min(max(int(a[0]), 0), 5); r2 = min(max(int(a[1]), 0), 5); s = []
        if r1 != r2 and r1 * r2 == 0: s += cmd("CU")
        if r1 == 0 and r2 != 0:
            q = rng.choice([0, 1, 2, 4, 8, 16]); q2 = rng.choice([0, q]); s += qry("QE", "%d,%d" % (q, q2))
            res = {16: 1, 8: 2, 4: 3, 2: 4, 1: 5, 0: 0}; old = res[q] if q else res[q2]
            if old != r2: s += cmd("EM")          # the scale-setting EM is only sent when the scale in use differs
        return s + cmd("EM")
    if m == "steps": return qry("QS", "%d,%d" % (rng.randint(-5000, 5000), rng.randint(-5000, 5000)))
    if m == "clear_steps": return cmd("CS")
    if m == "clear_acc": return cmd("T3")
    if m in ("pen_lower", "pen_raise"): return cmd("SP")
    if m == "b_config": return cmd("PO") + cmd("PD")
    if m == "b_set": return cmd("PO")
    if m == "b_read": return qry("PI", str(rng.randint(0, 1)))
    if m in ("pos_down", "pos_up", "rate_down", "rate_up"): return cmd("SC")
    if m == "servo_timeout": return cmd("SR")
    if m in ("voltage", "current"): return qry("QC", "%04d,%04d" % (rng.randint(0, 1023), rng.randint(0, 1023)))
    return []

def random_call(rng):
    I = lambda lo, hi: rng.randint(lo, hi)
    oz = lambda: rng.choice([None, 0, 1, I(0, 7)])
    opts = [
        ("command", rng.choice(["EM,1,1", "SP,1", " TP ", "R", "SC,4,1000", "SM,10,0,0", "RB", "XM,5,1,1", "V"])),
        ("query", rng.choice(["QM", "QB", "V", "QS", "I", "QP", " QG ", "QE", "A", "QC", "PI,B,1"])),
        ("status",), ("var_write", I(0, 255), I(0, 31)), ("var_read", I(0, 31)),
        ("var_write32", rng.choice([0, 1, -1, 2**31 - 1, -2**31, I(-2**31, 2**31 - 1)]), I(0, 28)), ("var_read32", I(0, 28)),
        ("query_nick",), ("write_nick", rng.choice(["Bot", " Axi ", "", "  ", None])),
        ("pause", rng.choice([0, -5, 1, 750, 751, 1500, 2000])), ("xy", I(-500, 500), I(-500, 500), I(1, 2000)),
        ("abs", I(2, 25000), rng.choice([None, 0, I(-9, 9)]), rng.choice([None, 0, 500])),
        ("motors_off",), ("motors_on", I(-1, 6), I(-1, 6)), ("motors_query",), ("steps",), ("clear_steps",), ("clear_acc",),
        ("pen_lower", I(0, 500), oz()), ("pen_raise", I(0, 500), oz()),
        ("b_config", I(0, 7), I(0, 1), I(0, 1)), ("b_set", I(0, 7), I(0, 1)), ("b_read", I(0, 7)),
        ("pos_down", I(1, 65535)), ("pos_up", I(1, 65535)), ("rate_down", I(1, 65535)), ("rate_up", I(1, 65535)),
        ("servo_timeout", I(0, 60000), rng.choice([None, 0, 1])), ("voltage", rng.choice([None, 0, 250, 400])), ("current",),
    ]
    return rng.choice(opts)

ALL_REQUESTS = ["command", "query", "status", "reboot", "bootload", "var_write", "var_read", "var_write32", "var_read32", "query_nick", "write_nick",
                "pause", "xy", "abs", "motors_off", "motors_on", "motors_query", "steps", "clear_steps", "clear_acc", "pen_lower", "pen_raise",
                "b_config", "b_set", "b_read", "pos_down", "pos_up", "rate_down", "rate_up", "servo_timeout", "voltage", "current"]

def sample_call(m, rng):
    """one call of method m with typical arguments"""
    for _ in range(500):
        c = random_call(rng)
        if c[0] == m: return c
    fixed = {"reboot": ("reboot",), "bootload": ("bootload",)}
    return fixed[m]

def disturb(events, rng):
    """inject one disturbance into a nominal script"""
    ev = list(events)
    if not ev: return ev, "none"
    k = rng.random(); i = rng.randrange(len(ev))
    if k < 0.3: ev[i] = "F"; return ev, "fault@%d" % i
    if k < 0.45: ev[i:i + 1] = ["E"] * 30; return ev, "timeout@%d" % i
    if k < 0.6:
        n = rng.choice([1, 24, 25, 26]); ev[i:i] = ["E"] * n; return ev, "empties%d@%d" % (n, i)
    if k < 0.8: ev[i] = ("L", rng.choice(["!8 Err: Unknown command", "Err: bad", "QX,Err: x"])); return ev, "errline@%d" % i
    ev[i] = ("L", rng.choice(["ZZ,1", "OK", "XX", "1,2"])); return ev, "wrongname@%d" % i
