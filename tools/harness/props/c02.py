"""C02 move_dist_t3 / rate_t3 = third-order firmware recurrence."""
import mpmath
from common import cz, copt
from plotink import ebb_calc
from props import ebbgen

import common
ID = "C02"
COQ_HEADER = "From Plotink Require Import Base.Prelude Corr.C02.\nOpen Scope Z_scope."
COQ_RUN = "run02"
COQ_CASE_TYPE = "case02"
RULE = ("firmware-valid (T, rate, accel, jerk, accumulator|clear): jerk residues mod 6 and accel parity of both signs, first tick zero, first two ticks zero, "
        "vertex of the rate parabola inside / at the edge / outside the move, zero jerk (compared with move_dist_lt as well), T up to 2^32-1 with (A, J) scaled into range; "
        "random ambient mpmath precision; non-trivial = T >= 2 and jerk != 0")
TRUSTED = ["mpmath at 30 digits: the accumulated rounding error of the /6 path stays below 1/2 before round() on the domain (sampled, not proved)"]
ASSUMPTIONS = ["per-tick |rate| and |accel| <= 2^31-1 for ticks 1..T, 1 <= T < 2^32, accumulator in [0,2^31) or clear"]
AMBIENT = [("dps", 5), ("dps", 15), ("dps", 30), ("dps", 50), ("prec", 7), ("prec", 200), ("decimal", 9), ("decimal", 4)]

def generate(rng, tier):
    n = 1200 if tier == "quick" else 90000
    cases = []
    for _ in range(n):
        T, rate, accel, jerk, fam = ebbgen.gen_t3(rng)
        acc = ebbgen.pick_acc(rng)
        amb = rng.randrange(len(AMBIENT))
        if rng.random() < 0.15:
            acc = ebbgen.boundary_acc(rng, ebbgen.t3_total0(T, rate, accel, jerk)); fam += "/total-on-step-boundary"
        if jerk == 0:
            cases.append({"kind": "z", "T": T, "rate": rate, "accel": accel, "jerk": 0, "acc": acc, "amb": amb, "family": fam})
        else:
            cases.append({"kind": "d", "T": T, "rate": rate, "accel": accel, "jerk": jerk, "acc": acc, "amb": amb, "family": fam})
        cases.append({"kind": "r", "T": T, "rate": rate, "accel": accel, "jerk": jerk, "amb": amb, "family": fam + "/rate"})
        r = rng.random()
        if r < 0.12:       # the same move evaluated a moment ago from another accumulator state / for another duration; arguments by keyword or not
            cases[-2]["pre"] = [ebbgen.sibling_acc(rng, acc) for _ in range(rng.choice([1, 1, 2]))]; cases[-2]["kw"] = rng.choice([0, 1, 1, 2]); cases[-2]["family"] += "/after-sibling-call"
            cases[-1]["preT"] = [rng.choice([1, 2, T + 1, max(1, T - 1), 2 * T])]; cases[-1]["kw"] = rng.choice([0, 2]); cases[-1]["family"] += "/after-sibling-call"
        elif r < 0.22:
            cases[-2]["kw"] = rng.choice([1, 2]); cases[-1]["kw"] = 2; cases[-2]["family"] += "/keyword-arguments"; cases[-1]["family"] += "/keyword-arguments"
    # two moves that differ in one argument only, -1 against -2 (equal hashes in CPython: a table keyed by hash() confuses them), and
    # 0 against -0 / 1 against True-like neighbours: the second call must not receive the first one's answer
    for _ in range(40 if tier == "quick" else 1500):
        T, rate, accel, jerk, fam = ebbgen.gen_t3(rng)
        f = rng.choice(["rate", "accel", "jerk"]); a, b = rng.choice([(-1, -2), (-2, -1), (-1, -2), (0, 1), (1, 2)])
        base = {"T": T, "rate": rate, "accel": accel, "jerk": jerk}; base[f] = a
        if not ebbgen.t3_in_domain(base["T"], base["rate"], base["accel"], base["jerk"]): continue
        acc = ebbgen.pick_acc(rng); amb = rng.randrange(len(AMBIENT))
        kind = rng.choice(["d", "r"]) if base["jerk"] != 0 else "r"
        cases.append(dict(base, kind=kind, acc=acc, amb=amb, over=[{f: b}], kw=rng.choice([0, 0, 2]), family="after-call-differing-in-one-argument/%s" % f))
    return cases

def _clear(c):
    """the request for a cleared accumulator: the literal, or an equal string built at run time (what a caller reading it from a file or a
    command line passes: equal to "clear" but a different object)"""
    return "clear" if (c["rate"] + c["accel"]) % 2 else "".join(("cle", "ar"))

def _dist(c, acc_v, kw):
    acc = _clear(c) if acc_v is None else acc_v
    if acc_v is None and c["T"] % 3 == 0 and kw != 1: return ebbgen.call(ebb_calc.move_dist_t3, (c["T"], c["rate"], c["accel"], c["jerk"]), kw)      # argument omitted: the documented default is "clear"
    return ebbgen.call(ebb_calc.move_dist_t3, (c["T"], c["rate"], c["accel"], c["jerk"], acc), kw)

def run_impl(c):
    k, v = AMBIENT[c["amb"]]
    kw = c.get("kw", 0)
    ebbgen.set_ambient(k, v)
    try:
        for ov in c.get("over", []):
            d = dict(c, **ov)
            try:
                if c["kind"] == "r": ebbgen.call(ebb_calc.rate_t3, (d["T"], d["rate"], d["accel"], d["jerk"]), kw)
                else: _dist(d, d["acc"], kw)
            except Exception: pass
            ebbgen.set_ambient(k, v)
        if c["kind"] == "r":
            for t0 in c.get("preT", []):
                ebbgen.call(ebb_calc.rate_t3, (t0, c["rate"], c["accel"], c["jerk"]), kw)
            return {"rate": int(ebbgen.call(ebb_calc.rate_t3, (c["T"], c["rate"], c["accel"], c["jerk"]), kw))}
        for a0 in c.get("pre", []):
            _dist(c, a0, kw); ebbgen.set_ambient(k, v)
        p, a = _dist(c, c["acc"], kw)
        out = {"pos": int(p), "acc": int(a)}
        if c["kind"] == "z":
            ebbgen.set_ambient(k, v)
            acc = _clear(c) if c["acc"] is None else c["acc"]
            lp, la = ebb_calc.move_dist_lt(c["rate"], c["accel"], c["T"], acc)
            out["lpos"], out["lacc"] = int(lp), int(la)
        return out
    finally:
        ebbgen.reset_ambient()

def coq_case(c, r):
    a = (cz(c["T"]), cz(c["rate"]), cz(c["accel"]), cz(c["jerk"]))
    if "raise" in r:
        return "(K02r %s %s %s %s %s)" % (cz(1), cz(0), cz(0), cz(0), cz(12345))   # never matches: rate_t3(1,0,0,0) = 0
    if c["kind"] == "r":
        return "(K02r %s %s %s %s %s)" % (a + (cz(r["rate"]),))
    if c["kind"] == "d":
        return "(K02d %s %s %s %s %s %s %s)" % (a + (copt(c["acc"], cz), cz(r["pos"]), cz(r["acc"])))
    return "(K02z %s %s %s %s %s %s %s %s)" % (a[:3] + (copt(c["acc"], cz), cz(r["pos"]), cz(r["acc"]), cz(r["lpos"]), cz(r["lacc"])))

def nontrivial(c, r):
    return c["T"] >= 2 and c["jerk"] != 0

def shrink(c):
    for key in ("T", "rate", "accel", "jerk"):
        v = c[key]
        for nv in (v // 2, v - 1 if v > 0 else v + 1, 1 if key == "T" else 0):
            d = dict(c); d[key] = nv
            if nv != v and ebbgen.t3_in_domain(d["T"], d["rate"], d["accel"], d["jerk"]) and (c["kind"] != "z" or d["jerk"] == 0):
                yield d


def static_obligations(work, tier):
    """the predictor is re-translated from /repo's source on every run (integer/rational mode, mpmath calls read as exact arithmetic)
    and proved equal to the model the theorems are about"""
    return common.kernel_obligations(work, ID, "plotink/ebb_calc.py", ['move_dist_t3', 'rate_t3'], mode="zq") + common.rounding_obligation(work, ID, (53, 103))
