"""C12 parseLengthWithUnits, unitsToUserUnits, userUnitToUnits, getLength, getLengthInches."""
from fractions import Fraction as F
from common import cq, cz, cb, copt, ctext
from plotink import plot_utils

ID = "C12"
TRUTHY = False     # reading of "if percent_ref:" the implementation is compared with (True = as found at 547df41, False = repaired)
COQ_HEADER = "From Plotink Require Import Base.Prelude Corr.C12.\nOpen Scope Q_scope."
COQ_RUN = "run12"
COQ_CASE_TYPE = "case12"
SHARD = 300
RULE = ("numerals from the SVG number grammar (sign, integer, fraction, exponent in [-20,20], leading/trailing dot) x suffix in {none, px, in, mm, cm, pt, pc, Q, q, %} "
        "x surrounding whitespace, plus malformed strings (em, ex, bare unit, empty, letters, double sign, lone e); each string goes through the parser, "
        "unitsToUserUnits (reference None / 0 / number), the round trip through userUnitToUnits, and getLength / getLengthInches via a stub document; "
        "floats are compared bit for bit with the rnd53 execution of the model and within 1e-12 relative of the exact factor table; non-trivial = a unit suffix other than px")
TRUSTED = ["CPython float(str) is correctly rounded and accepts exactly the modelled grammar on the generated strings; the texts it reads beyond that grammar (inf, nan, underscore-grouped and non-ASCII digits) are generated as malformed texts and must yield None (repaired in 9a4ea9d)",
           "IEEE binary64 multiply/divide = round-to-nearest-even of the exact result (Base/Rnd.v executes it)"]
ASSUMPTIONS = ["ASCII input strings; finite numerals with |exponent| <= 20"]

UNITS = ["", "px", "in", "mm", "cm", "pt", "pc", "Q", "q", "%"]
UCODE = {"": 0, "px": 0, "in": 1, "mm": 2, "cm": 3, "pt": 4, "pc": 5, "Q": 6, "q": 6, "%": 7}
WS = ["", "", " ", "  ", "\t", "\n", " \r\n", "\x0b", "\x0c", "\x1c", "\x1f "]
BAD = ["", " ", "mm", "px", "%", "12em", "3ex", "1.5 em", "abc", "--5mm", "+-5", "e5", "1e", "1e+", ".", "+.", "5 mm", "5m m", "1,5mm", "0x10", "1.2.3", "5pxx", "12 px", "1e5e5", "5Px", "5MM", "5IN",
       "auto\nauto", "5\nem", "1\n2mm", "a\nb", "mm\n5", "5\nmm", "1e\n5", "12\r\nem", "5\x0bmm", "1 2", "infmm", "nan", "-inf in", "Infinity", "1_0mm", "1_0.5e1_0cm", "\u0663mm", "\uff11\uff12mm", "NaNpx", "inf%"]          # line breaks and other white space inside the text

def _numeral(rng):
    sign = rng.choice(["", "", "+", "-"])
    k = rng.random()
    if k < 0.3: body = str(rng.randint(0, 10**rng.randint(0, 8)))
    elif k < 0.6: body = "%d.%s" % (rng.randint(0, 10**rng.randint(0, 5)), "".join(rng.choice("0123456789") for _ in range(rng.randint(1, 9))))
    elif k < 0.7: body = ".%s" % "".join(rng.choice("0123456789") for _ in range(rng.randint(1, 6)))
    elif k < 0.8: body = "%d." % rng.randint(0, 9999)
    else: body = rng.choice(["0", "0.0", "1", "96", "25.4", "2.54", "72", "6", "101.6", "0.1", "100"])
    if rng.random() < 0.25:
        body += rng.choice("eE") + rng.choice(["", "+", "-"]) + str(rng.randint(0, 20))
    return sign + body

class _Root:
    def __init__(self, v): self.v = v
    def get(self, name): return self.v
class _Doc:
    def __init__(self, v): self.r = _Root(v)
    def getroot(self): return self.r
class _Alt:
    def __init__(self, v): self.document = _Doc(v)

def generate(rng, tier):
    n = 350 if tier == "quick" else 20000
    cases = []
    for _ in range(n):
        bad = rng.random() < 0.15
        if bad and rng.random() < 0.5:
            # a numeral followed by a token that is not a unit but is made of the letters of one (or repeats one): 10mmm, 7ppx, 2%%, 5pxpx
            tok = rng.choice(["mmm", "ppx", "nin", "mcm", "%%", "pxpx", "qq", "QQ", "ptt", "inn", "cmm", "ccm", "tpt", "ppc", "mmcm", "xpx", "iin", "pcc", "pxx", "mmmm", "p", "m", "i", "xp", "mp"])
            s = rng.choice(WS) + _numeral(rng) + tok + rng.choice(WS); u = None
        elif bad:
            s = rng.choice(WS) + rng.choice(BAD) + rng.choice(WS); u = None
        else:
            u = rng.choice(UNITS); s = rng.choice(WS) + _numeral(rng) + u + rng.choice(WS)
        fam = "malformed" if bad else "unit:" + (u or "none")
        cases.append({"kind": "p", "s": s, "family": fam})
        ref = rng.choice([None, None, F(0), F(rng.randint(1, 2000)), F(rng.uniform(0.1, 3000))])
        cases.append({"kind": "u", "s": s, "ref": ref, "family": fam + ("/ref0" if ref == 0 else "")})
        cases.append({"kind": "g", "attr": s, "dflt": F(rng.choice([100, 816, 1056.0, rng.uniform(1, 2000)])), "family": fam + "/getLength"})
        if rng.random() < 0.3:
            # the document attribute was read before and has been edited in place since (same extension object, same document object)
            prev = [rng.choice(["2in", "50mm", "100", "25%", "12em", None, "3in", "7pt", s]) for _ in range(rng.randint(1, 3))]
            cases[-1]["prev"] = prev; cases[-1]["family"] += "/attribute-edited-in-place"
        if not bad:
            cases.append({"kind": "r", "s": s, "u": u, "family": fam + "/roundtrip"})
        d = F(rng.choice([0.0, 96.0, 1.0, rng.uniform(-1e4, 1e4), float(rng.randint(-10**6, 10**6))]))
        uu = rng.choice(UNITS)
        cases.append({"kind": "b", "d": d, "u": uu, "family": "back:" + (uu or "none")})
    for s0 in BAD:          # every malformed text once, through the parser, the converter and the attribute reader
        cases.append({"kind": "p", "s": s0, "family": "malformed/systematic"})
        cases.append({"kind": "u", "s": s0, "ref": None, "family": "malformed/systematic"})
        cases.append({"kind": "g", "attr": s0, "dflt": F(100), "family": "malformed/systematic/getLength"})
    cases.append({"kind": "g", "attr": None, "dflt": F(7), "family": "getLength/absent"})
    cases.append({"kind": "u", "s": "50%", "ref": F(0), "family": "unit:%/ref0"})
    return cases

def _f(x):
    return None if x is None else F(x)

def run_impl(c):
    k = c["kind"]
    if k == "p":
        v, u = plot_utils.parseLengthWithUnits(c["s"])
        return {"v": _f(v), "u": u}
    if k == "u":
        ref = None if c["ref"] is None else (float(c["ref"]) if c["ref"].denominator != 1 else int(c["ref"]))
        return {"v": _f(plot_utils.unitsToUserUnits(c["s"], ref))}
    if k == "b":
        return {"v": _f(plot_utils.userUnitToUnits(float(c["d"]), c["u"]))}
    if k == "g":
        a = _Alt(c["attr"])
        if c.get("prev"):
            a.document.r.v = c["prev"][0]
            for nxt in c["prev"][1:] + [c["attr"]]:
                try: plot_utils.getLength(a, "width", float(c["dflt"])); plot_utils.getLengthInches(a, "width")
                except Exception: pass
                a.document.r.v = nxt
        return {"len": _f(plot_utils.getLength(a, "width", float(c["dflt"]))), "inch": _f(plot_utils.getLengthInches(a, "width"))}
    v, u = plot_utils.parseLengthWithUnits(c["s"])
    uu = plot_utils.unitsToUserUnits(c["s"], None)
    back = plot_utils.userUnitToUnits(uu, u)
    return {"v": _f(v), "back": _f(back)}

def coq_case(c, r):
    k = c["kind"]
    if "raise" in r:
        return "(K12r 1 0%Z 2)"                    # an exception is never acceptable: encode as a failing round trip
    if k == "p":
        impl = "None" if r["v"] is None else "(Some (%s, %s))" % (cq(r["v"]), cz(UCODE[r["u"]]))
        return "(K12p %s %s)" % (ctext(c["s"]), impl)
    if k == "u":
        return "(K12u %s %s %s %s)" % (cb(TRUTHY), ctext(c["s"]), copt(c["ref"], cq), copt(r["v"], cq))
    if k == "b":
        if r["v"] is None:                             # every unit of this family is a supported one: None is a wrong answer, not a crash of the harness
            return "(K12r 1 0%Z 2)"
        return "(K12b %s %s %s)" % (cq(c["d"]), cz(UCODE[c["u"]]), cq(r["v"]))
    if k == "g":
        attr = "None" if c["attr"] is None else "(Some %s)" % ctext(c["attr"])
        return "(K12g %s %s %s %s)" % (attr, cq(c["dflt"]), copt(r["len"], cq), copt(r["inch"], cq))
    if r["v"] is None or r["back"] is None:
        return "(K12r 1 0%Z 2)"
    return "(K12r %s %s %s)" % (cq(r["v"]), cz(UCODE[c["u"]]), cq(r["back"]))

def nontrivial(c, r):
    s = c.get("s") or c.get("attr") or ""
    return c["kind"] == "b" and c["u"] not in ("", "px") or any(s.strip().endswith(u) for u in UNITS[2:])

def _ref0(c, r):
    """finding class: percentage with an explicit reference of 0 is treated as if no reference were given"""
    return c["kind"] == "u" and c["ref"] is not None and c["ref"] == 0 and c["s"].strip().endswith("%")
FINDING_CLASSES = {"units_percent_ref_zero_treated_as_absent": _ref0}

def explain(c, r):
    return {"call": {k: (repr(v) if isinstance(v, str) else str(v)) for k, v in c.items()}, "result": {k: str(v) for k, v in r.items()}}

def shrink(c):
    s = c.get("s")
    if isinstance(s, str):
        for i in range(len(s)):
            yield dict(c, s=s[:i] + s[i + 1:])
