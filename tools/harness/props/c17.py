"""C17 max_rate_t3 brackets the true peak within one jerk increment."""
from common import cz
from plotink import ebb_calc
from props import ebbgen

import common
ID = "C17"
COQ_HEADER = "From Plotink Require Import Base.Prelude Corr.C17.\nOpen Scope Z_scope."
COQ_RUN = "run17"
COQ_CASE_TYPE = "case17"
RULE = ("firmware-valid (T, rate, accel, jerk): vertex of the rate parabola at 1, 1.5, T-1.5 and one step either side, strictly inside, outside the move, "
        "zero jerk, T in {1,2,3,large}; plus moves that leave the 2^31-1 range at the first tick, the last tick or an interior extremum, and moves 0/1/2 units off the limit "
        "(|values| < 2^36); non-trivial = jerk != 0 and T >= 3")
TRUSTED = ["Python float quotient (jerk/2 - accel)/jerk classifies against 1.5 / T-1.5 and rounds up like the rational one on the domain (sampled, not proved)"]
ASSUMPTIONS = ["firmware-valid families: per-tick |rate| and |accel| <= 2^31-1 for ticks 1..T, 1 <= T < 2^32; limit families: |rate|, |accel| < 2^36, T <= 20000 (floats exact)"]

def generate(rng, tier):
    n = 2500 if tier == "quick" else 150000
    cases = []
    for _ in range(n):
        T, rate, accel, jerk, fam = ebbgen.gen_t3(rng)
        c = {"T": T, "rate": rate, "accel": accel, "jerk": jerk, "family": fam}
        r = rng.random()
        if r < 0.15:       # the same ramp was evaluated a moment ago with another duration or start rate (a planner shortening a move); keyword arguments or not
            c["pre"] = [rng.choice([(2 * T, rate), (T + 7, rate), (max(1, T // 2), rate), (T, rate + 1), (10 * T + 3, -rate)]) for _ in range(rng.choice([1, 1, 2]))]
            c["kw"] = rng.choice([0, 0, 2]); c["family"] += "/after-sibling-call"
        elif r < 0.25: c["kw"] = 2; c["family"] += "/keyword-arguments"
        if rng.random() < 0.04:
            f = rng.choice(["rate", "accel", "jerk"]); a, b = rng.choice([(-1, -2), (-2, -1), (0, 1)])
            c2 = dict(c); c2[f] = a
            if ebbgen.t3_in_domain(c2["T"], c2["rate"], c2["accel"], c2["jerk"]):
                c = dict(c2, over=[{f: b}], family="after-call-differing-in-one-argument/%s" % f)
        # a session: the other calculators of the module ran a moment ago (a planner predicting the distance of the neighbouring moves),
        # once or several times, and the application may have set mpmath's working precision itself; none of it concerns this function
        r2 = rng.random()
        if r2 < 0.12:
            c["session"] = [rng.choice(["lt", "lt", "t3", "lm"]) for _ in range(rng.choice([1, 2, 2, 3]))]; c["family"] += "/after-other-calculators"
        elif r2 < 0.18:
            c["amb"] = rng.choice([("dps", 4), ("dps", 60), ("prec", 4), ("prec", 11), ("prec", 15)]); c["family"] += "/ambient-mpmath-precision"
        cases.append(c)
    # moves that leave the 2^31-1 range (the reason the helper exists: its report is compared with the limit): the rate passes the
    # limit at the first tick, at the last tick, or at an interior extremum; magnitudes kept below 2^36 so that the float
    # arithmetic of rate_t3 stays exact
    M = ebbgen.M
    for _ in range(n // 8):
        T = rng.choice([1, 2, 3, rng.randint(4, 400), rng.randint(401, 20000)])
        where = rng.choice(["start", "end", "interior", "just-over", "just-under"])
        jerk = rng.choice([0, rng.randint(-2000, 2000), rng.randint(-50, 50)]) if T < 400 else rng.choice([0, rng.randint(-20, 20)])
        over = rng.choice([1, 2, 1000, rng.randint(1, M)])
        sg = rng.choice([1, -1])
        if where == "start":
            accel = -sg * rng.randint(0, 10**6); re_v = sg * (M + over) - accel
        elif where == "end":
            accel = sg * rng.randint(0, (M + over) // max(1, T)); re_v = sg * (M + over) - accel * T - jerk * T * (T - 1) // 2
        elif where == "interior" and jerk != 0 and T >= 5:
            k = rng.randint(2, T - 1); accel = -jerk * k + rng.choice([0, jerk // 2]); re_v = -sg * abs(jerk) // jerk * (M + over) - accel * k - jerk * k * (k - 1) // 2
        else:
            accel = rng.randint(-1000, 1000); d = 0 if where == "just-under" else rng.choice([1, 2])
            re_v = sg * (M + d) - accel
        rate = re_v + ebbgen.tq(accel, 2) - ebbgen.tq(jerk, 6)
        if abs(rate) < 2**36 and abs(accel) < 2**36:
            cases.append({"T": T, "rate": rate, "accel": accel, "jerk": jerk, "family": "limit/" + where})
    return cases

def run_impl(c):
    import mpmath
    save = mpmath.mp.prec
    try:
        return _run_impl(c)
    finally:
        mpmath.mp.prec = save

def _run_impl(c):
    import mpmath
    kw = c.get("kw", 0)
    if "amb" in c: setattr(mpmath.mp, c["amb"][0], c["amb"][1])
    for which in c.get("session", []):
        try:
            if which == "lt": ebb_calc.move_dist_lt(c["rate"] % 2**31, 1000, max(1, c["T"] % 50000), "clear")
            elif which == "t3": ebb_calc.move_dist_t3(max(1, c["T"] % 5000), c["rate"] % 2**31, 10, 1)
            else: ebb_calc.calculate_lm(5, 100000000, 1000)
        except Exception: pass
    for ov in c.get("over", []):
        d = dict(c, **ov)
        try: ebbgen.call(ebb_calc.max_rate_t3, (d["T"], d["rate"], d["accel"], d["jerk"]), kw)
        except Exception: pass
    for (t0, r0) in c.get("pre", []):
        try: ebbgen.call(ebb_calc.max_rate_t3, (t0, r0, c["accel"], c["jerk"]), kw)
        except Exception: pass           # the earlier call may lie outside the domain; only its side effects matter here
    return {"max": int(ebbgen.call(ebb_calc.max_rate_t3, (c["T"], c["rate"], c["accel"], c["jerk"]), kw))}

def coq_case(c, r):
    v = r["max"] if "raise" not in r else -1
    return "(K17 %s %s %s %s %s)" % (cz(c["T"]), cz(c["rate"]), cz(c["accel"]), cz(c["jerk"]), cz(v))

def nontrivial(c, r):
    return c["jerk"] != 0 and c["T"] >= 3

def shrink(c):
    for key in ("T", "rate", "accel", "jerk"):
        v = c[key]
        for nv in (v // 2, v - 1 if v > 0 else v + 1, 1 if key == "T" else 0):
            d = dict(c); d[key] = nv
            if nv != v and d["T"] >= 1 and (ebbgen.t3_in_domain(d["T"], d["rate"], d["accel"], d["jerk"]) or c["family"].startswith("limit/")):
                yield d


def static_obligations(work, tier):
    """rate_t3 and max_rate_t3 are re-translated from /repo's source on every run (integer/rational mode) and proved equal to the model"""
    return common.kernel_obligations(work, ID, "plotink/ebb_calc.py", ["rate_t3", "max_rate_t3"], mode="zq") + common.rounding_obligation(work, ID, (53,))
