"""C17 max_rate_t3 brackets the true peak within one jerk increment."""
from common import cz
from plotink import ebb_calc
from props import ebbgen

ID = "C17"
COQ_HEADER = "From Plotink Require Import Base.Prelude Corr.C17.\nOpen Scope Z_scope."
COQ_RUN = "run17"
COQ_CASE_TYPE = "case17"
RULE = ("firmware-valid (T, rate, accel, jerk): vertex of the rate parabola at 1, 1.5, T-1.5 and one step either side, strictly inside, outside the move, "
        "zero jerk, T in {1,2,3,large}; non-trivial = jerk != 0 and T >= 3")
TRUSTED = ["Python float quotient (jerk/2 - accel)/jerk classifies against 1.5 / T-1.5 and rounds up like the rational one on the domain (sampled, not proved)"]
ASSUMPTIONS = ["per-tick |rate| and |accel| <= 2^31-1 for ticks 1..T, 1 <= T < 2^32"]

def generate(rng, tier):
    n = 2500 if tier == "quick" else 60000
    cases = []
    for _ in range(n):
        T, rate, accel, jerk, fam = ebbgen.gen_t3(rng)
        cases.append({"T": T, "rate": rate, "accel": accel, "jerk": jerk, "family": fam})
    return cases

def run_impl(c):
    return {"max": int(ebb_calc.max_rate_t3(c["T"], c["rate"], c["accel"], c["jerk"]))}

def coq_case(c, r):
    v = r["max"] if "raise" not in r else -1
    return "(K17 %s %s %s %s %s)" % (cz(c["T"]), cz(c["rate"]), cz(c["accel"]), cz(c["jerk"]), cz(v))

def nontrivial(c, r):
    return c["jerk"] != 0 and c["T"] >= 3

def shrink(c):
    for key in ("T", "rate", "accel", "jerk"):
        v = c[key]
        for nv in (v // 2, v - 1 if v > 0 else v + 1, 1 if key == "T" else 0):
            d = dict(c); d[key] = nv
            if nv != v and ebbgen.t3_in_domain(d["T"], d["rate"], d["accel"], d["jerk"]):
                yield d
