"""C11 plot_utils.vb_scale: viewBox + preserveAspectRatio -> scale and offset."""
from fractions import Fraction as F
from common import cq, cb, ctext
from plotink import plot_utils

ID = "C11"
RAISES = False     # model reading of a non-numeric viewBox token (True = ValueError as found at 547df41, False = identity, repaired)
COQ_HEADER = "From Plotink Require Import Base.Prelude Corr.C11.\nOpen Scope Q_scope."
COQ_RUN = "run11"
COQ_CASE_TYPE = "case11"
SHARD = 250
RULE = ("viewBox strings (4 numbers, space/comma separated, extra tokens, short, non-numeric, non-positive) x document sizes (equal / smaller / larger aspect, "
        "non-positive) x preserveAspectRatio in {absent, none, 9 alignments} x {absent, meet, slice, junk} x {defer, -} in lower/upper/mixed case with "
        "space/comma/tab separators; results compared bit for bit with the rnd53 execution of the model and within 1e-9 (relative to the input scale) "
        "of the exact SVG answer; non-trivial = valid viewBox with unequal aspect ratios and an explicit alignment")
TRUSTED = ["CPython float(str) correctly rounded; IEEE binary64 + - * / = round-to-nearest-even of the exact result (Base/Rnd.v executes it)",
           "SVG 1.1 section 7.8 as transcribed in Spec/Svg.v"]
ASSUMPTIONS = ["ASCII attribute strings; finite numbers with |exponent| <= 20"]

ALIGNS = ["none"] + ["x%sY%s" % (a, b) for a in ("Min", "Mid", "Max") for b in ("Min", "Mid", "Max")]

def _num(rng):
    k = rng.random()
    if k < 0.4: return str(rng.randint(-200, 1000))
    if k < 0.7: return "%.3f" % rng.uniform(-500, 2000)
    if k < 0.8: return "%de%d" % (rng.randint(1, 99), rng.randint(-3, 3))
    return rng.choice(["0", "100", "297", "210", "816", "1056", "0.5", "1e2"])

def _pos(rng):
    k = rng.random()
    if k < 0.5: return str(rng.randint(1, 2000))
    if k < 0.9: return "%.4f" % rng.uniform(0.01, 3000)
    return rng.choice(["100", "297", "210", "1e3"])

def _case_variant(rng, s):
    k = rng.random()
    if k < 0.4: return s
    if k < 0.6: return s.lower()
    if k < 0.8: return s.upper()
    return "".join(ch.upper() if rng.random() < 0.5 else ch.lower() for ch in s)

def _par(rng):
    k = rng.random()
    if k < 0.1: return None
    sep = rng.choice([" ", "  ", ",", ", ", "\t", " , "])
    toks = []
    if rng.random() < 0.25: toks.append("defer")
    toks.append(rng.choice(ALIGNS) if rng.random() < 0.93 else rng.choice(["xMidYMud", "foo", "xminymin2", "meet"]))
    m = rng.random()
    if m < 0.35: toks.append("meet")
    elif m < 0.7: toks.append("slice")
    elif m < 0.75: toks.append("junk")
    s = sep.join(_case_variant(rng, t) for t in toks)
    if rng.random() < 0.05: s = rng.choice(["", " ", "defer", ","])
    return rng.choice(["", " ", "\n"]) + s + rng.choice(["", " ", "\t"])

def generate(rng, tier):
    n = 900 if tier == "quick" else 40000
    cases = [{"vb": "0 0 abc 10", "par": None, "dw": F(100), "dh": F(100), "family": "non-numeric-witness"}]
    # non-positive document sizes with a valid viewBox: the identity whatever preserveAspectRatio says (every alignment incl. none, meet / slice, defer)
    for al in ALIGNS:
        for dw, dh in ((0, 200), (300, 0), (-300, 200), (100, -1), (0, 0)):
            toks = (["defer"] if rng.random() < 0.3 else []) + [_case_variant(rng, al)] + rng.choice([[], ["meet"], ["slice"]])
            cases.append({"vb": "%s %s %s %s" % (_num(rng), _num(rng), _pos(rng), _pos(rng)), "par": " ".join(toks), "dw": F(dw), "dh": F(dh), "family": "valid/doc-non-positive/" + al})
    for _ in range(n):
        k = rng.random()
        fam = "valid"
        if k < 0.06: vb, fam = None, "vb-absent"
        elif k < 0.12: vb, fam = rng.choice(["", " ", "0 0 100", "1,2,3", "0 0"]), "vb-short"
        elif k < 0.17: vb, fam = rng.choice(["0 0 abc 10", "a b c d", "0 0 10 1o", "0 0 10px 10", "x 0 10 10", "0 0 1e 5",
                                             "0 0 inf 10", "0 0 10 nan", "0 0 1_0 10", "nan 0 10 10", "0 -inf 10 10", "0 0 \u0661\u0660 10", "0 0 Infinity 5"]), "vb-non-numeric"
        elif k < 0.24: vb, fam = "%s %s %s %s" % (_num(rng), _num(rng), rng.choice(["0", "-5", _pos(rng)]), rng.choice(["0", "-1", "0.0"])), "vb-non-positive"
        else:
            sep = rng.choice([" ", ",", ", ", "  ", " ,", "\t"])
            vb = sep.join([_num(rng), _num(rng), _pos(rng), _pos(rng)])
            if rng.random() < 0.15:      # very flat or very tall shapes
                a, b = rng.choice([("1000", "9.2"), ("1000", "10"), ("12.5", "2400"), ("800", "8")]); vb = sep.join([_num(rng), _num(rng), a, b])
            if rng.random() < 0.1: vb += sep + "7"
            vb = rng.choice(["", " ", "\n "]) + vb + rng.choice(["", " "])
        d = rng.random()
        if d < 0.08:
            dw, dh = F(rng.choice([0, -10, 100])), F(rng.choice([0, -3])); fam += "/doc-non-positive"
        elif d < 0.2 and fam == "valid":
            # equal aspect ratio
            try:
                toks = vb.replace(",", " ").split(); w, h = float(toks[2]), float(toks[3]); s = rng.choice([1, 2, 0.5, 3])
                dw, dh = F(w * s), F(h * s); fam += "/equal-aspect"
                if rng.random() < 0.5:
                    # nearly the same shape: aspect ratios that differ by 1e-3 .. 1e-7 (absolutely: flat and tall shapes make that a large
                    # relative difference) - the fit is not exact and alignment matters
                    dh = F(float(dh) + rng.choice([1, -1]) * float(dw) * rng.choice([9e-4, 1e-4, 1e-5, 1e-7])); fam = "valid/nearly-equal-aspect"
                    if dh <= 0: dh = F(h * s)
            except Exception:
                dw, dh = F(100), F(100)
        else:
            dw = F(rng.choice([float(rng.randint(1, 3000)), rng.uniform(0.5, 3000)])); dh = F(rng.choice([float(rng.randint(1, 3000)), rng.uniform(0.5, 3000)]))
        cases.append({"vb": vb, "par": _par(rng), "dw": dw, "dh": dh, "family": fam})
        if fam.startswith("valid") and dw > 0 and dh > 0 and rng.random() < 0.12:
            c2 = dict(cases[-1])
            if rng.random() < 0.25:            # pages far below a thousandth of a unit
                c2["dw"], c2["dh"] = F(rng.choice([0.0004, 0.0003])), F(rng.choice([0.0004, 0.00025])); c2["pre_doc"] = (F(0.0002), F(0.0001))
            else:
                e1, e2 = rng.choice([(0.0003, 0.0), (0.0004, -0.0002), (-0.0002, 0.0004), (0.0, 0.00045)])
                c2["dw"] = F(round(float(dw), 3)); c2["dh"] = F(round(float(dh), 3))
                c2["pre_doc"] = (F(float(c2["dw"]) + e1), F(float(c2["dh"]) + e2))
            if c2["dw"] > 0 and c2["dh"] > 0 and c2["pre_doc"][0] > 0 and c2["pre_doc"][1] > 0:
                c2["family"] = fam + "/after-a-call-for-nearly-the-same-page"; cases.append(c2)
    # the same requests in an interpreter started with -O, where assert statements are skipped: input validation must not live in
    # assertions (non-positive and malformed sizes, and a few ordinary ones)
    picks = [c for c in cases if "non-positive" in c["family"] or "vb-" in c["family"]]
    rng.shuffle(picks)
    for c in picks[:(24 if tier == "quick" else 150)] + [c for c in cases if c["family"] == "valid"][:6]:
        cases.append(dict(c, optimized=True, family=c["family"] + "/python-O"))
    # extreme but legal magnitudes: page and viewBox sizes around 1e200 (products of two of them are not doubles) or 1e-170 (products
    # underflow to zero), every alignment with meet and slice, both relative shapes; the ratios the function needs are all ordinary
    for mag in ("1e200", "2e200", "1e-170", "3e-170", "1e154", "1e-162"):
        for al in ALIGNS:
            for shape in range(2):
                w, h = (mag, str(float(mag) * 2)) if shape else (str(float(mag) * 2), mag)
                dwf, dhf = float(mag), float(mag) * rng.choice([1.0, 1.5])
                toks = [al] + rng.choice([[], ["meet"], ["slice"]])
                cases.append({"vb": "0 0 %s %s" % (w, h), "par": " ".join(toks), "dw": F(dwf), "dh": F(dhf), "family": "valid/extreme-magnitude/" + mag})
    return cases

_OPT_SNIPPET = ("import sys, json; sys.path.insert(0, sys.argv[1]); from plotink import plot_utils\n"
                "out = []\n"
                "for vb, par, dw, dh in json.loads(sys.stdin.read()):\n"
                "    try: out.append([float(x).hex() for x in plot_utils.vb_scale(vb, par, dw, dh)])\n"
                "    except BaseException as e: out.append(type(e).__name__)\n"
                "print(json.dumps(out))")

def _run_optimized(c, dw, dh):
    """the same call in an interpreter started with -O (assert statements are not executed there: a deployment option, not an input)"""
    import subprocess, json, sys, common
    p = subprocess.run([sys.executable, "-O", "-c", _OPT_SNIPPET, common.REPO], input=json.dumps([[c["vb"], c["par"], dw, dh]]), capture_output=True, text=True, timeout=120)
    if p.returncode != 0: return {"raise": "SubprocessFailed", "msg": p.stderr[-300:]}
    r = json.loads(p.stdout.strip().splitlines()[-1])[0]
    if isinstance(r, str): return {"raise": r, "msg": "raised under python -O"}
    return {"r": [F(float.fromhex(x)) for x in r]}

def run_impl(c):
    dw = float(c["dw"]) if c["dw"].denominator != 1 else int(c["dw"])
    dh = float(c["dh"]) if c["dh"].denominator != 1 else int(c["dh"])
    if c.get("optimized"):
        return _run_optimized(c, dw, dh)
    if "pre_doc" in c:
        # the same viewBox and preserveAspectRatio were scaled a moment ago for a page of nearly, not exactly, the same size
        try: plot_utils.vb_scale(c["vb"], c["par"], float(c["pre_doc"][0]), float(c["pre_doc"][1]))
        except Exception: pass
    r = plot_utils.vb_scale(c["vb"], c["par"], dw, dh)
    return {"r": [F(x) for x in r]}

def _scale(c):
    s = F(1)
    if c["vb"]:
        for t in c["vb"].replace(",", " ").split()[:4]:
            try: s += abs(F(float(t)))
            except Exception: pass
    return s

def coq_case(c, r):
    vb = "None" if c["vb"] is None else "(Some %s)" % ctext(c["vb"])
    par = "None" if c["par"] is None else "(Some %s)" % ctext(c["par"])
    impl = "None" if "raise" in r else "(Some (%s, %s, %s, %s))" % tuple(cq(x) for x in r["r"])
    return "(K11 %s %s %s %s %s %s %s)" % (cb(RAISES), vb, par, cq(c["dw"]), cq(c["dh"]), cq(_scale(c)), impl)

def nontrivial(c, r):
    return c["family"] == "valid" and c["par"] is not None and "raise" not in r and r["r"][:2] != [1, 1]

def _nonnumeric(c, r):
    """finding class: a viewBox with at least four tokens, one of the first four not a number -> ValueError instead of the identity"""
    if c["vb"] is None or r.get("raise") != "ValueError": return False
    toks = c["vb"].strip().replace(",", " ").split()
    if len(toks) < 4: return False
    for t in toks[:4]:
        try: float(t)
        except ValueError: return True
    return False
FINDING_CLASSES = {"vb_scale_non_numeric_token_raises": _nonnumeric}

def explain(c, r):
    return {"call": "vb_scale(%r, %r, %s, %s)" % (c["vb"], c["par"], float(c["dw"]), float(c["dh"])), "result": str(r)}

def shrink(c):
    if c["par"]:
        for i in range(len(c["par"])):
            yield dict(c, par=c["par"][:i] + c["par"][i + 1:])
    for k in ("dw", "dh"):
        if c[k] != round(c[k]): yield dict(c, **{k: F(round(c[k]))})
