"""C09 plot_utils.supersample / points_in_tolerance / max_dist_from_n_points."""
from fractions import Fraction as F
from common import cq, cz, cb, clist, copt
from plotink import plot_utils

ID = "C09"
COQ_HEADER = "From Plotink Require Import Base.Prelude Model.Simplify Corr.C09.\nOpen Scope Q_scope."
COQ_RUN = "run09"
COQ_CASE_TYPE = "case09"
SHARD = 200
RULE = ("near-duplicate pairs astride the edge of the tolerance band; specks (a whole path inside a box of 0.72..1.0 tolerances per side, with hooks across the diagonal); vertex lists of 0..40 vertices on integer / half-integer / rational grids: random walks, collinear runs, repeated points, closed loops with a zero-length "
        "closing segment, sharp reversals, vertices projecting before the start / past the end / exactly at an end of the chord, distance exactly equal to the tolerance; "
        "tolerances <= 0, tiny, comparable to the step, huge; the survivors are identified by object identity; the predicate is also compared with "
        "max_dist_from_n_points on floats; plus float runs of supersample on long nearly straight runs (chord 1e3..1e11 tolerances long, offsets of 0.3..40 tolerances, "
        "rotated / translated), judged in exact arithmetic with a relative slack of 1e-6 on the tolerance; non-trivial = at least one vertex deleted, or a predicate call with >= 4 points")
TRUSTED = ["python Fraction arithmetic = exact rational arithmetic; object identity via id()",
           "ink_extensions.ffgeom distance (float sqrt) as the reference measurement, compared outside a 1e-9 relative band around the tolerance"]
ASSUMPTIONS = ["finite coordinates"]

def _path(rng):
    mode = rng.choice(["int", "half", "rat"])
    def c():
        if mode == "int": return F(rng.randint(-6, 6))
        if mode == "half": return F(rng.randint(-12, 12), 2)
        return F(rng.randint(-300, 300), rng.randint(1, 40))
    n = rng.choice([0, 1, 2, 3, 3, 4, 5, 6, 8, 12, 20, 40])
    pts = []
    x, y = c(), c()
    for _ in range(n):
        k = rng.random()
        if k < 0.2 and pts: pass                                    # repeated point
        elif k < 0.45 and len(pts) >= 2:                            # continue collinear (possibly reversing)
            dx, dy = pts[-1][0] - pts[-2][0], pts[-1][1] - pts[-2][1]; m = rng.choice([1, 1, 2, -1, F(1, 2), -2])
            x, y = pts[-1][0] + m * dx, pts[-1][1] + m * dy
        elif k < 0.6 and pts:                                       # small sideways wiggle
            x, y = pts[-1][0] + rng.choice([1, 2, 3]), pts[-1][1] + F(rng.randint(-3, 3), rng.choice([1, 10, 100]))
        else: x, y = c(), c()
        pts.append((F(x), F(y)))
    if n >= 3 and rng.random() < 0.15: pts[-1] = pts[0]             # closed loop: zero-length chord for the whole list
    return pts

def _tol(rng, pts):
    k = rng.random()
    if k < 0.08: return F(rng.choice([0, -1]))
    if k < 0.3: return F(1, rng.choice([1000, 100, 10]))
    if k < 0.7: return F(rng.randint(1, 30), rng.choice([1, 2, 4, 10]))
    if k < 0.8 and len(pts) >= 3:
        # exactly the distance of some vertex from the chord of its neighbours (squared distances are rational; use axis-aligned cases)
        i = rng.randrange(1, len(pts) - 1); a, b, p = pts[i - 1], pts[i + 1], pts[i]
        d = abs(p[1] - a[1]) if a[1] == b[1] else abs(p[0] - a[0])
        return d if d > 0 else F(1)
    return F(1000)

def generate(rng, tier):
    n = 500 if tier == "quick" else 25000
    cases = []
    for _ in range(n):
        pts = _path(rng); tol = _tol(rng, pts)
        cases.append({"kind": "s", "pts": pts, "tol": tol, "family": "supersample/n=%d" % min(len(pts), 9)})
        if len(pts) >= 3:
            k = rng.randint(3, len(pts)); a = rng.randint(0, len(pts) - k)
            cases.append({"kind": "p", "pts": pts[a:a + k], "tol": tol if tol > 0 else F(1), "family": "predicate"})
    # drawings far from the origin with a fine tolerance (coordinates 10^6 .. 10^9, tolerance 10^-3 .. 10^-1): consecutive vertices that are
    # a few tolerances apart are "equal" to nine significant digits, yet they are distinct points and a jog of five tolerances is a jog
    for _ in range(max(10, n // 25)):
        base = F(10) ** rng.choice([6, 7, 8, 9]) * rng.choice([1, 3]); tol = F(1, rng.choice([10, 100, 1000]))
        bx, by = base + rng.randint(0, 999), (base if rng.random() < 0.7 else F(rng.randint(-50, 50)))
        pts = [(bx, by)]
        x, y = bx, by
        for _ in range(rng.randint(2, 7)):
            k = rng.random()
            if k < 0.4: x, y = x + tol * rng.choice([0, 0, 1, -2]), y + tol * rng.choice([5, -5, 3, 12])          # a sideways jog of a few tolerances
            elif k < 0.7: x, y = x + rng.randint(1, 20), y + tol * F(rng.randint(-9, 9), 10)                         # along the stroke, within tolerance
            else: x, y = x + rng.randint(-10, 10), y + rng.randint(1, 10)
            pts.append((x, y))
        cases.append({"kind": "s", "pts": pts, "tol": tol, "family": "far-from-origin/fine-tolerance"})
    # finely sampled corners and arcs: runs of segments far shorter than the tolerance (1/8 .. 1/32 of it) that bend away from the chord by
    # more than the tolerance (a staple, an L, a small circle, a spiral): short steps add up
    for _ in range(max(10, n // 25)):
        tol = F(rng.choice([1, 2, 1, 4])); h = tol / rng.choice([8, 8, 16, 32]); shape = rng.choice(["staple", "ell", "circle", "zigzag-drift"])
        ox, oy = F(rng.randint(-30, 30)), F(rng.randint(-30, 30)); k = int(2 * tol / h); pts = [(ox, oy)]
        if shape == "staple":
            pts += [(ox, oy + h * i) for i in range(1, k + 1)] + [(ox + h * i, oy + h * k) for i in range(1, k + 1)] + [(ox + h * k, oy + h * (k - i)) for i in range(1, k + 1)]
        elif shape == "ell":
            pts += [(ox + h * i, oy) for i in range(1, 2 * k)] + [(ox + h * (2 * k - 1), oy + h * i) for i in range(1, 2 * k)]
        elif shape == "circle":
            import math
            m = rng.choice([32, 64]); r = 2 * tol
            pts = [(ox + F(round(float(r) * math.cos(2 * math.pi * i / m) * 64), 64), oy + F(round(float(r) * math.sin(2 * math.pi * i / m) * 64), 64)) for i in range(m + 1)]
        else:
            pts += [(ox + h * i, oy + (h / 2 if i % 2 else 0) + h * i * i / (4 * k)) for i in range(1, 3 * k)]
        pts.append((pts[-1][0] + 10 * tol, pts[-1][1]))
        cases.append({"kind": "s", "pts": pts, "tol": tol, "family": "finely-sampled/" + shape})
    # long removable runs (over-sampled strokes: 64..300 vertices within tolerance of one segment) ending in a corner, a zig-zag or a hook:
    # whatever window-growing strategy the code uses, every deleted vertex must be within tolerance of the segment that survives
    for _ in range(max(6, n // 40)):
        m = rng.choice([64, 65, 67, 70, 100, 130, 200, 300]); tol = F(rng.choice([1, 2])) / rng.choice([1, 2])
        pts = [(F(i), F(rng.choice([0, 0, 0, 1, -1]), 8) * tol) for i in range(m)]
        x = F(m - 1)
        tail = rng.choice(["corner", "zigzag", "hook", "spike"])
        if tail == "corner": pts += [(x, F(j)) for j in range(1, 4)]
        elif tail == "zigzag": pts += [(x + j, F(6 if j % 2 else -6)) for j in range(1, 6)]
        elif tail == "hook": pts += [(x + 1, F(1, 2)), (x + 1, F(3)), (x - 2, F(3))]
        else: pts += [(x + 1, tol * 3), (x + 2, F(0)), (x + 3, F(0))]
        cases.append({"kind": "s", "pts": pts, "tol": tol, "family": "long-run/%d+%s" % (m, tail)})
    # specks: the whole path fits in a box whose sides are a little shorter than the tolerance, yet a vertex can be farther than the
    # tolerance from the chord of its neighbours (diagonally: up to 1.41 sides); hooks whose ends sit in one corner and apex in the opposite one
    for _ in range(max(30, n // 8)):
        tol = F(rng.choice([1, 2, 5, 10]), rng.choice([1, 4, 10])); side = tol * F(rng.choice([72, 80, 90, 95, 99, 100]), 100)
        ox, oy = F(rng.randint(-50, 50)), F(rng.randint(-50, 50))
        m = rng.choice([3, 3, 4, 5, 8])
        g = lambda: side * F(rng.randint(0, 10), 10)
        if rng.random() < 0.5:
            pts = [(ox + g(), oy + g()) for _ in range(m)]
        else:
            lo = lambda: side * F(rng.randint(0, 2), 10); hi = lambda: side * F(rng.randint(8, 10), 10)
            pts = [(ox + lo(), oy + lo())] + [(ox + hi(), oy + hi()) for _ in range(m - 2)] + [(ox + lo(), oy + lo())]
            if rng.random() < 0.5: pts = [(x, 2 * oy + side - y) for x, y in pts]        # the other diagonal
        cases.append({"kind": "s", "pts": pts, "tol": tol, "family": "speck/box=%d%%tol" % int(side * 100 / tol)})
    # near-duplicate pairs: two consecutive vertices closer than a tenth of the tolerance, the first in the outer tenth of the tolerance band
    # around the chord that would replace it, the second on or beyond the band: dropping the second "because it nearly repeats the first"
    # and then the first against the long chord strands the second farther than the tolerance from what survives
    for _ in range(max(20, n // 12)):
        tol = F(rng.choice([20, 1, 2, 5]), rng.choice([1, 1, 4])); L = tol * rng.choice([5, 10, 40])
        ox, oy = F(rng.randint(-30, 30)), F(rng.randint(-30, 30))
        ya = tol * F(rng.choice([90, 95, 96, 99]), 100); yb = tol * F(rng.choice([100, 101, 104, 108]), 100)
        xm = L / 2; dx = tol * F(rng.choice([0, 1, 3, 5]), 100)
        pts = [(ox, oy), (ox + xm, oy + ya), (ox + xm + dx, oy + yb), (ox + L, oy)]
        if rng.random() < 0.4: pts = [(ox - L, oy)] + pts
        if rng.random() < 0.3: pts = [(x, 2 * oy - y) for x, y in pts]
        if rng.random() < 0.3: pts = [(y, x) for x, y in pts]
        cases.append({"kind": "s", "pts": pts, "tol": tol, "family": "near-duplicate-pair"})
    # the double-precision run on small whole numbers (every product is exact; a quotient is compared with a whole number it can only
    # equal exactly): vertices exactly one tolerance from chords of length 7, 14, 27, 28, 29, 54 ... (1/49, 1/196, 1/729 are not exact in
    # binary) and a little inside / outside; judged exactly, like the Fraction runs
    for _ in range(max(30, n // 8)):
        L = rng.choice([7, 14, 27, 28, 29, 54, 56, 58, 5, 10, 13, 21, 35]); tol = rng.choice([1, 2, 3])
        a = rng.randint(1, L - 1); off = rng.choice([tol, tol, tol, tol + 1, tol - 1 if tol > 1 else tol])
        ox, oy = rng.randint(-20, 20), rng.randint(-20, 20)
        pts = [(0, 0), (a, off * rng.choice([1, -1])), (L, 0)]
        if rng.random() < 0.4: pts = pts[:2] + [(min(L - 1, a + rng.randint(1, 3)), off)] + pts[2:]
        if rng.random() < 0.3: pts = [(-rng.randint(3, 9), rng.randint(-4, 4))] + pts
        if rng.random() < 0.5: pts = [(y, x) for x, y in pts]
        if rng.random() < 0.3:          # 3-4-5 and 20-21-29 rotations keep everything whole
            c5, s5, h5 = rng.choice([(3, 4, 5), (4, 3, 5), (20, 21, 29), (21, 20, 29)])
            pts = [(c5 * x - s5 * y, s5 * x + c5 * y) for x, y in pts]; tol = tol * h5
        cases.append({"kind": "s", "pts": [(F(ox + x), F(oy + y)) for x, y in pts], "tol": F(tol), "as_float": True, "family": "float-on-whole-numbers/knife-edge"})
    # one vertex object at several places of the list (a closed outline whose last entry IS its first, an outline traced twice, a path
    # through a node it visits again): deleting one occurrence must not take the others with it.  The run on the list with shared
    # objects must give, place by place, what the run on distinct copies gives (which is the run that is judged)
    for _ in range(max(12, n // 20)):
        base = _path(rng)
        if len(base) < 3: continue
        k = rng.choice(["closed", "twice", "revisit"])
        if k == "closed": idx = list(range(len(base))) + [0]
        elif k == "twice": idx = (list(range(len(base))) + [0]) * 2
        else:
            j = rng.randrange(len(base)); idx = list(range(len(base))) + [j] + [rng.randrange(len(base)) for _ in range(rng.randint(1, 3))]
        cases.append({"kind": "s", "pts": [base[i] for i in idx], "share": idx, "tol": _tol(rng, base), "family": "shared-vertex-objects/" + k})
    # float runs (the arithmetic of the code is the double-precision one): long, nearly straight runs with a tiny tolerance - the
    # offsets are a few tolerances, the chord 1e7..1e11 tolerances long - and ordinary drawing-sized float data; judged exactly
    import math
    for _ in range(n // 5):
        tol = rng.choice([1e-6, 1e-5, 1e-3, 0.01]); L = rng.choice([10.0, 1e3, 1e4, 1e5]); ang = rng.choice([0.0, 0.0, 0.3, 1.1, math.pi / 2])
        ox, oy = rng.choice([(0.0, 0.0), (0.0, 0.0), (123.456, -78.9), (1e4, 1e4)])
        m = rng.choice([3, 4, 4, 5, 8]); ts = sorted(rng.uniform(0.05, 0.95) for _ in range(m - 2))
        pts = []
        for t, off in [(0.0, 0.0)] + [(t, rng.choice([0.3, 0.9, 1.5, 3.0, 10.0, 40.0, -2.0, -20.0, 0.0]) * tol) for t in ts] + [(1.0, 0.0)]:
            x, y = t * L, off
            pts.append((F(ox + x * math.cos(ang) - y * math.sin(ang)), F(oy + x * math.sin(ang) + y * math.cos(ang))))
        cases.append({"kind": "f", "pts": pts, "tol": F(tol), "family": "float/long-run L/tol=1e%d" % round(math.log10(L / tol))})
    return cases

def run_impl(c):
    if c["kind"] == "f":
        objs = [[float(x), float(y)] for x, y in c["pts"]]
        work = list(objs)
        plot_utils.supersample(work, float(c["tol"]))
        ident = {id(o): i for i, o in enumerate(objs)}
        return {"kept": [ident.get(id(o), -1) for o in work]}
    if c["kind"] == "s":
        cv = float if c.get("as_float") else (lambda v: v)
        objs = [[cv(x), cv(y)] for x, y in c["pts"]]           # distinct objects, even for equal points
        work = list(objs)
        plot_utils.supersample(work, cv(c["tol"]))
        ident = {id(o): i for i, o in enumerate(objs)}
        kept = [ident.get(id(o), -1) for o in work]
        if c.get("share"):
            uniq = {}
            shared = [uniq.setdefault(j, [cv(x), cv(y)]) for j, (x, y) in zip(c["share"], c["pts"])]       # equal indices -> the very same object
            work2 = list(shared)
            plot_utils.supersample(work2, cv(c["tol"]))
            same = len(work2) == len(work) and all(a[0] == b[0] and a[1] == b[1] for a, b in zip(work2, work)) and all(any(o is q for q in shared) for o in work2)
            if not same:
                return {"raise": "SharedObjectsChangeTheResult", "msg": "with distinct objects %d vertices survive, with shared objects %d: %r" % (len(work), len(work2), work2[:8])}
        return {"kept": kept}
    pit = plot_utils.points_in_tolerance(c["pts"], c["tol"])
    md = plot_utils.max_dist_from_n_points([(float(x), float(y)) for x, y in c["pts"]])
    return {"pit": bool(pit), "maxdist": F(md)}

def coq_case(c, r):
    if c["kind"] in ("s", "f"):
        v = clist(["(%s, (%s, %s))" % (cz(i), cq(x), cq(y)) for i, (x, y) in enumerate(c["pts"])])
        impl = "None" if "raise" in r else "(Some %s)" % clist([cz(i) for i in r["kept"]])
        return "(%s %s %s %s)" % ("K09s" if c["kind"] == "s" else "K09f", v, cq(c["tol"]), impl)
    pts = clist(["(%s, %s)" % (cq(x), cq(y)) for x, y in c["pts"]])
    if "raise" in r:
        return "(K09p %s %s None None)" % (pts, cq(c["tol"]))
    return "(K09p %s %s (Some %s) (Some %s))" % (pts, cq(c["tol"]), cb(r["pit"]), cq(r["maxdist"]))

def nontrivial(c, r):
    if c["kind"] in ("s", "f"): return "kept" in r and len(r["kept"]) < len(c["pts"])
    return len(c["pts"]) >= 4

def explain(c, r):
    return {"points": [(str(x), str(y)) for x, y in c["pts"]], "tol": str(c["tol"]), "result": {k: (str(v) if isinstance(v, F) else v) for k, v in r.items()}}

def shrink(c):
    pts = c["pts"]
    lim = 3 if c["kind"] == "p" else 0
    if len(pts) > lim:
        for i in range(len(pts)):
            yield dict(c, pts=pts[:i] + pts[i + 1:])
    for i, (x, y) in enumerate(pts):
        nx, ny = F(round(x)), F(round(y))
        if (nx, ny) != (x, y): yield dict(c, pts=pts[:i] + [(nx, ny)] + pts[i + 1:])
