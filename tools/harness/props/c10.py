"""C10 plot_utils.subdivideCubicPath: refinement of the same curve until flat."""
import copy
from fractions import Fraction as F
from common import cq, cb, clist
from plotink import plot_utils

ID = "C10"
COQ_HEADER = "From Plotink Require Import Base.Prelude Model.Simplify Model.Subdiv Corr.C10.\nOpen Scope Q_scope."
COQ_RUN = "run10"
COQ_CASE_TYPE = "case10"
SHARD = 60
CASE_TIMEOUT = 8        # a call that does not return within 8 s counts as non-terminating (ordinary cases: milliseconds)
RULE = ("tiny pieces whose control polygon fits a flatness-sized box; every path is flattened twice in the same process from fresh copies (second result judged, first must stay intact); pieces whose half split lands exactly on one of their own end nodes (3(p1+p2)+p3 = 7 p0 and mirror images, closed pieces with opposite handles); node lists of 1..6 nodes: control points on a quarter-integer grid in [-64, 64] (the float run is then exact and is compared node for node with the "
        "exact model), and general floats (judged by the refinement checker with eps = 1e-9 x scale): loops, cusps, coincident endpoints, already-flat pieces, "
        "handles overshooting the chord; small shapes (handles of a few 2^-11) translated to +-2^20 / 10^6 with flatness 2^-13..2^-10; flatness from 1/4 to 64; non-trivial = at least one piece was split")
TRUSTED = ["on the quarter-integer grid every float operation of the run is exact (values stay below 2^53 ulp) so float = rational",
           "the refinement checker of Corr/C10.v (dyadic subdivision tree matching) is an executable specification; for exact runs it is evaluated with eps = 0",
           "ink_extensions.bezmisc.beziersplitatt is dependency code, modelled (tpoint at 0.5)"]
ASSUMPTIONS = ["finite control points; flatness > 0", "the model runs with fuel 4000 (termination is proved: C10_terminates; the budget only bounds the evaluation)"]

def _pt(rng, mode):
    if mode == "grid": return (F(rng.randint(-256, 256), 4), F(rng.randint(-256, 256), 4))
    return (F(rng.uniform(-100, 100)), F(rng.uniform(-100, 100)))

def _nodes(rng, mode):
    n = rng.choice([1, 2, 2, 3, 4, 6])
    out = []
    for _ in range(n):
        p = _pt(rng, mode)
        k = rng.random()
        if k < 0.15: hi, ho = p, p                               # cusp / line node
        elif k < 0.3:
            d = _pt(rng, mode); hi = (p[0] - d[0] / 8, p[1] - d[1] / 8); ho = (p[0] + d[0] / 8, p[1] + d[1] / 8)   # smooth node
        else: hi, ho = _pt(rng, mode), _pt(rng, mode)
        out.append([hi, p, ho])
    if n >= 2 and rng.random() < 0.15: out[-1][1] = out[0][1]     # closed: coincident endpoints
    if n >= 2 and rng.random() < 0.1:                            # a straight (already flat) piece
        a, b = out[0][1], out[1][1]; out[0][2] = ((3 * a[0] + b[0]) / 4, (3 * a[1] + b[1]) / 4); out[1][0] = ((a[0] + 3 * b[0]) / 4, (a[1] + 3 * b[1]) / 4)
    return out

def _dist_to_chord(p, a, b):
    """distance (float, for choosing a tolerance only) from p to the segment a-b"""
    ax, ay, bx, by, px, py = map(float, (a[0], a[1], b[0], b[1], p[0], p[1]))
    l2 = (bx - ax) ** 2 + (by - ay) ** 2
    t = 0.0 if l2 == 0 else max(0.0, min(1.0, ((px - ax) * (bx - ax) + (py - ay) * (by - ay)) / l2))
    return ((px - ax - t * (bx - ax)) ** 2 + (py - ay - t * (by - ay)) ** 2) ** 0.5


def _far_nodes(rng):
    """a small shape far from the origin: handles a few 2^-11 long on nodes near (+-2^20, +-2^20) - flatness is an absolute distance,
    so the same shape must be subdivided the same way wherever it lies (all values dyadic: the float run stays exact)"""
    ox, oy = rng.choice([2**20, -2**20, 3 * 2**18, 10**6, 0]), rng.choice([2**20, -2**20, 10**6, 0, 7])
    u = F(1, 2**11)
    n = rng.choice([2, 2, 3, 4]); out = []
    x = F(ox); y = F(oy)
    for _ in range(n):
        p = (x, y)
        hi = (p[0] + rng.randint(-3, 3) * u, p[1] + rng.randint(-3, 3) * u)
        ho = (p[0] + rng.randint(-3, 3) * u, p[1] + rng.randint(-3, 3) * u)
        out.append([hi, p, ho])
        x += rng.choice([1, 2, F(1, 4), -1]); y += rng.choice([0, 0, 1, F(1, 2), -2])
    return out

def generate(rng, tier):
    n = 260 if tier == "quick" else 5000
    cases = []
    # knife edge of the flatness test: an inner control point exactly `flat` away from its chord (beside it, before its start, past its
    # end) must cause a further split; chords whose squared length has an inexact reciprocal in binary (49, 98, 197, ...)
    for _ in range(n // 8):
        L = rng.choice([(7, 0), (14, 0), (7, 7), (14, 1), (3, 0), (5, 0), (0, 7), (10, 0), (6, 3)])
        flat = F(rng.choice([1, 2, 1, F(1, 2)]))
        ox, oy = F(rng.randint(-20, 20)), F(rng.randint(-20, 20))
        ln2 = L[0] * L[0] + L[1] * L[1]
        def at(t, off):      # point at parameter t of the chord, `off` chord-lengths-normalised units to its left: exact only for axis-parallel chords
            if L[1] == 0: return (ox + t * L[0], oy + off)
            if L[0] == 0: return (ox - off, oy + t * L[1])
            return (ox + t * L[0], oy + t * L[1] + off)          # oblique chords: vertical offset (distance is off * Lx / |L|, not a knife edge, kept for variety)
        t1 = F(rng.randint(1, 7), 8); t2 = F(rng.randint(1, 7), 8)
        k = rng.choice(["beside", "beside", "before", "past"])
        p1 = at(t1, flat) if k == "beside" else (at(F(0), F(0))[0] - (flat if L[1] == 0 else 0), at(F(0), F(0))[1] - (flat if L[1] != 0 else 0)) if k == "before" else at(t1, flat)
        p2 = at(t2, rng.choice([flat, -flat, flat / 2, F(0)]))
        nodes = [[(ox, oy), (ox, oy), p1], [p2, (ox + L[0], oy + L[1]), (ox + L[0], oy + L[1])]]
        cases.append({"nodes": nodes, "flat": flat, "exact": True, "family": "flatness-knife-edge/%s/L2=%d" % (k, ln2)})
    # curves that pass through one of their own end nodes at the middle of a piece (the half split lands exactly on p0 or p3:
    # 3 (p1 + p2) + p3 = 7 p0, or the mirror image; closed pieces with opposite handles): such a piece is not small and must still be split
    for _ in range(max(12, n // 10)):
        q = lambda lo, hi: F(rng.randint(lo * 4, hi * 4), 4)
        o = (q(-20, 20), q(-20, 20)); d = rng.choice([(F(0), F(0)), (q(-3, 3), q(-3, 3)), (F(2), F(0))])
        p1 = (o[0] + q(-8, 8), o[1] + q(-8, 8))
        p0 = o; p3 = (o[0] + 3 * d[0], o[1] + 3 * d[1]); p2 = (2 * o[0] - d[0] - p1[0], 2 * o[1] - d[1] - p1[1])
        piece = [p0, p1, p2, p3]
        if rng.random() < 0.5: piece = piece[::-1]               # the mirror image: the split lands on the end node
        pre = _nodes(rng, "grid")[:rng.choice([0, 0, 1])]; post = _nodes(rng, "grid")[:rng.choice([0, 0, 1])]
        nodes = pre + [[piece[0], piece[0], piece[1]], [piece[2], piece[3], piece[3]]] + post
        cases.append({"nodes": nodes, "flat": F(rng.choice([1, 1, 2, 4])) / rng.choice([1, 2, 4, 8]), "exact": True, "family": "split-lands-on-own-end-node"})
    # tiny pieces: all four control points inside a box a little smaller than the flatness in both directions, with a handle pointing
    # diagonally away from the chord (between 1 and 1.41 flatness from it): small is not flat
    for _ in range(max(12, n // 10)):
        flat = F(1, rng.choice([1, 2, 8, 64])); u = flat / 8
        ox, oy = F(rng.randint(-40, 40)), F(rng.randint(-40, 40))
        g = lambda: (ox + u * rng.randint(-3, 3), oy + u * rng.randint(-3, 3))
        if rng.random() < 0.5:
            p0 = (ox, oy); p1 = (ox - 6 * u, oy + 6 * u); p2 = p3 = (ox + u * rng.randint(0, 1), oy)
            if rng.random() < 0.5: p1, p2 = p2, (p3[0] + 6 * u, p3[1] - 6 * u) if False else p1
        else:
            p0, p1, p2, p3 = g(), g(), g(), g()
        piece = [p0, p1, p2, p3]
        if rng.random() < 0.3: piece = [(y, x) for x, y in piece]
        nodes = [[piece[0], piece[0], piece[1]], [piece[2], piece[3], piece[3]]]
        cases.append({"nodes": nodes, "flat": flat, "exact": True, "family": "tiny-piece-in-a-flatness-sized-box"})
    # collinear, axis-parallel pieces whose handles overshoot an end node (an out-and-back stroke, handles reaching past both ends):
    # straight is not the same as within the chord
    for _ in range(max(10, n // 12)):
        flat = F(rng.choice([1, 1, 2]), rng.choice([1, 4, 10])); y = F(rng.randint(-20, 20)); x0 = F(rng.randint(-20, 20)); L = F(rng.choice([0, 12, 5, 30]))
        o1 = F(rng.choice([-6, -1, 30, 3])); o2 = F(rng.choice([6, 18, -30, 1]))
        piece = [(x0, y), (x0 + o1, y), (x0 + L + o2, y), (x0 + L, y)]
        if rng.random() < 0.5: piece = [(b, a) for a, b in piece]
        nodes = [[piece[0], piece[0], piece[1]], [piece[2], piece[3], piece[3]]]
        if rng.random() < 0.3: nodes = nodes + _nodes(rng, "grid")[:1]
        cases.append({"nodes": nodes, "flat": flat, "exact": True, "family": "collinear-axis-parallel-overshoot"})
    # slowly flattening pieces: the deviation comes from an end cap (a handle pointing away from the other end node) or three control
    # points are clustered and the fourth is far away - halving such a piece removes well under half of its deviation; the tolerance
    # is put between half of the piece's deviation and the deviation itself, so the halves of the first split still need testing
    for _ in range(max(24, n // 6)):
        q = lambda lo, hi: F(rng.randint(lo * 4, hi * 4), 4)
        if rng.random() < 0.5:
            p0 = (F(0), F(0)); p3 = (q(4, 12), F(0)); p1 = (-q(2, 9), q(0, 4)); p2 = rng.choice([p3, p3, (p3[0] + q(0, 2), q(-1, 1))]); shape = "end-cap"
        else:
            p0 = (F(0), F(0)); p1 = (q(0, 1), q(0, 1)); p2 = rng.choice([p1, (q(0, 1), q(0, 1))]); p3 = (-q(4, 12), q(-4, 4)); shape = "cluster-and-far-point"
        piece = [p0, p1, p2, p3]
        dev = max(_dist_to_chord(piece[k], p0, p3) for k in (1, 2))
        if dev <= 0: continue
        flat = F(max(1, round(dev * rng.uniform(0.5, 1.0) * 64)), 64)
        ox, oy = q(-20, 20), q(-20, 20); sc = rng.choice([1, 1, 2, F(1, 2)])
        if rng.random() < 0.5: piece = piece[::-1]
        if rng.random() < 0.5: piece = [(y, x) for x, y in piece]
        piece = [(ox + sc * x, oy + sc * y) for x, y in piece]
        pre = _nodes(rng, "grid")[:rng.choice([0, 0, 1])]
        nodes = pre + [[piece[0], piece[0], piece[1]], [piece[2], piece[3], piece[3]]]
        cases.append({"nodes": nodes, "flat": flat * sc, "exact": True, "family": "slowly-flattening/" + shape})
    # deep but narrow: an out-and-back stroke along an axis, 10^5 .. 10^7 units long, flattened to 10^-4 .. 10^-2: only the piece that
    # holds the turning point stays unflat, through 17 .. 25 halvings, so the result has a few dozen nodes (no bound on the number of
    # halvings is part of the contract); float run, compared within 2^-44 of the coordinate scale
    for _ in range(max(6, n // 30)):
        L = F(rng.choice([10**5, 10**6, 2**20, 10**7, 3 * 10**6])); flat = F(1, rng.choice([10**4, 10**3, 2**10, 100]))
        a, b = rng.choice([(L, L / 4), (L, -L / 8), (L / 2, L), (L, L / 3), (-L / 5, L)])
        y = F(rng.randint(-50, 50)); x0 = F(rng.randint(-50, 50)); x3 = x0 + rng.choice([0, 3, 40])
        piece = [(x0, y), (x0 + a, y), (x0 + b, y), (x3, y)]
        if rng.random() < 0.5: piece = [(q, p) for p, q in piece]
        if rng.random() < 0.3: piece = piece[::-1]
        nodes = [[piece[0], piece[0], piece[1]], [piece[2], piece[3], piece[3]]]
        cases.append({"nodes": nodes, "flat": flat, "exact": False, "eps_rel": 2.0 ** -44, "family": "deep-narrow-out-and-back"})
    # the same shapes at microscopic and at huge scale (coordinates and flatness multiplied by one power of two: the float run stays
    # exact): flatness is whatever positive number the caller gives, 2^-24 or 2^-60 as much as 0.5
    for _ in range(max(10, n // 12)):
        k = rng.choice([-60, -40, -30, -24, -20, 30, 100]); sc = F(2) ** k
        nodes = [[(h[0] * sc, h[1] * sc) for h in nd] for nd in _nodes(rng, "grid")]
        flat = F(rng.choice([1, 2, 4, 8, 16])) / rng.choice([1, 2, 4]) * sc
        cases.append({"nodes": nodes, "flat": flat, "exact": True, "family": "scaled-by-2^%d" % k})
    # closed loops as editors write them: the last node is a copy of the first (same point, same two handles), three or more nodes, handles
    # long enough for the first and the last piece to be split; every original node keeps its outer handles
    for _ in range(max(10, n // 20)):
        nodes = _nodes(rng, "grid")
        while len(nodes) < 2: nodes = _nodes(rng, "grid")
        p = nodes[0][1]; d = (F(rng.randint(-12, 12), 1) or F(5), F(rng.randint(-12, 12), 1))
        first = [(p[0] - d[0], p[1] - d[1]), p, (p[0] + d[0], p[1] + d[1])]
        nodes = [first] + nodes[1:] + [[first[0], first[1], first[2]]]
        cases.append({"nodes": nodes, "flat": F(rng.choice([1, 2, 4])) / rng.choice([1, 2, 4, 8]), "exact": True, "family": "closed-loop/last-node-copies-first"})
    for _ in range(n // 6):
        nodes = _far_nodes(rng)
        cases.append({"nodes": nodes, "flat": F(1, 2 ** rng.choice([13, 12, 11, 10])), "exact": True, "family": "far-from-origin/n=%d" % len(nodes)})
    for _ in range(n):
        mode = "grid" if rng.random() < 0.6 else "float"
        nodes = _nodes(rng, mode)
        flat = F(rng.choice([1, 2, 4, 8, 16, 64])) / rng.choice([1, 1, 2, 4]) if mode == "grid" else F(rng.uniform(0.3, 20))
        cases.append({"nodes": nodes, "flat": flat, "exact": mode == "grid", "family": "%s/n=%d" % (mode, len(nodes))})
    return _with_previews(cases, rng)

def _with_previews(cases, rng):
    for c in cases:
        if rng.random() < 0.3:
            c["preview"] = rng.choice([[40.0], [8.0, 300.0], [1000.0], [3.0]]); c["family"] += "/coarser-preview-in-between"
    return cases

def run_impl(c):
    # the same path is flattened twice from fresh copies (a document re-plotted in one session): the second result is the one judged,
    # and the first must not be altered by the second call
    mk = lambda: [[[float(h[0]), float(h[1])] for h in node] for node in c["nodes"]]
    sp = mk()
    plot_utils.subdivideCubicPath(sp, float(c["flat"]))
    snap = copy.deepcopy(sp)
    # a preview at a coarser flatness in between (same control points, fresh copy): what was good enough for the preview is not good
    # enough for the plot
    for mult in c.get("preview", []):
        try: plot_utils.subdivideCubicPath(mk(), float(c["flat"]) * mult)
        except Exception: pass
    sp2 = mk()
    # the second run passes the documented default of the start index explicitly (positionally or by keyword): the same request
    style = sum(len(nd) for nd in c["nodes"]) + len(str(c["flat"]))
    if style % 3 == 0: plot_utils.subdivideCubicPath(sp2, float(c["flat"]))
    elif style % 3 == 1: plot_utils.subdivideCubicPath(sp2, float(c["flat"]), 1)
    else: plot_utils.subdivideCubicPath(s_p=sp2, flat=float(c["flat"]), i=1)
    if sp != snap: sp2 = sp              # the earlier result was changed behind the caller's back: judge what it has become
    return {"out": [[(F(h[0]), F(h[1])) for h in node] for node in sp2]}

def _node(nd):
    # the implementation receives floats: the model gets exactly those values
    return "(mknode (%s, %s) (%s, %s) (%s, %s))" % tuple(cq(F(float(v))) for h in nd for v in h)

def coq_case(c, r):
    scale = max([abs(v) for nd in c["nodes"] for h in nd for v in h] + [F(1)])
    if "eps_rel" in c: scale = scale * F(c["eps_rel"]) * 10**9          # Corr/C10.v takes eps = scale * 1e-9 for float runs: a tighter comparison for this case
    impl = "None" if "raise" in r else "(Some %s)" % clist([_node(nd) for nd in r["out"]])
    return "(K10 %s %s %s %s %s)" % (cb(c["exact"]), cq(c["flat"]), cq(scale), clist([_node(nd) for nd in c["nodes"]]), impl)

def nontrivial(c, r):
    return "out" in r and len(r["out"]) > len(c["nodes"])

def explain(c, r):
    return {"nodes": [[(float(h[0]), float(h[1])) for h in nd] for nd in c["nodes"]], "flat": float(c["flat"]),
            "output_nodes": len(r.get("out", [])), "output": [[(float(h[0]), float(h[1])) for h in nd] for nd in r.get("out", [])][:12]}

def shrink(c):
    nodes = c["nodes"]
    if len(nodes) > 2:
        for i in range(len(nodes)):
            yield dict(c, nodes=nodes[:i] + nodes[i + 1:])
    for i, nd in enumerate(nodes):
        for j in range(3):
            x, y = nd[j]; nx, ny = F(round(x)), F(round(y))
            if (nx, ny) != (x, y):
                nn = copy.deepcopy(nodes); nn[i][j] = (nx, ny); yield dict(c, nodes=nn)
    if c["flat"] < 64: yield dict(c, flat=c["flat"] * 2)
