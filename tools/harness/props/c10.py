"""C10 plot_utils.subdivideCubicPath: refinement of the same curve until flat."""
import copy
from fractions import Fraction as F
from common import cq, cb, clist
from plotink import plot_utils

ID = "C10"
COQ_HEADER = "From Plotink Require Import Base.Prelude Model.Simplify Model.Subdiv Corr.C10.\nOpen Scope Q_scope."
COQ_RUN = "run10"
COQ_CASE_TYPE = "case10"
SHARD = 60
RULE = ("node lists of 1..6 nodes: control points on a quarter-integer grid in [-64, 64] (the float run is then exact and is compared node for node with the "
        "exact model), and general floats (judged by the refinement checker with eps = 1e-9 x scale): loops, cusps, coincident endpoints, already-flat pieces, "
        "handles overshooting the chord; flatness from 1/4 to 64; non-trivial = at least one piece was split")
TRUSTED = ["on the quarter-integer grid every float operation of the run is exact (values stay below 2^53 ulp) so float = rational",
           "the refinement checker of Corr/C10.v (dyadic subdivision tree matching) is an executable specification; for exact runs it is evaluated with eps = 0",
           "ink_extensions.bezmisc.beziersplitatt is dependency code, modelled (tpoint at 0.5)"]
ASSUMPTIONS = ["finite control points; flatness > 0", "termination is not proved: the model runs with fuel 4000 and the deepest observed subdivision is recorded"]

def _pt(rng, mode):
    if mode == "grid": return (F(rng.randint(-256, 256), 4), F(rng.randint(-256, 256), 4))
    return (F(rng.uniform(-100, 100)), F(rng.uniform(-100, 100)))

def _nodes(rng, mode):
    n = rng.choice([1, 2, 2, 3, 4, 6])
    out = []
    for _ in range(n):
        p = _pt(rng, mode)
        k = rng.random()
        if k < 0.15: hi, ho = p, p                               # cusp / line node
        elif k < 0.3:
            d = _pt(rng, mode); hi = (p[0] - d[0] / 8, p[1] - d[1] / 8); ho = (p[0] + d[0] / 8, p[1] + d[1] / 8)   # smooth node
        else: hi, ho = _pt(rng, mode), _pt(rng, mode)
        out.append([hi, p, ho])
    if n >= 2 and rng.random() < 0.15: out[-1][1] = out[0][1]     # closed: coincident endpoints
    if n >= 2 and rng.random() < 0.1:                            # a straight (already flat) piece
        a, b = out[0][1], out[1][1]; out[0][2] = ((3 * a[0] + b[0]) / 4, (3 * a[1] + b[1]) / 4); out[1][0] = ((a[0] + 3 * b[0]) / 4, (a[1] + 3 * b[1]) / 4)
    return out

def generate(rng, tier):
    n = 260 if tier == "quick" else 5000
    cases = []
    for _ in range(n):
        mode = "grid" if rng.random() < 0.6 else "float"
        nodes = _nodes(rng, mode)
        flat = F(rng.choice([1, 2, 4, 8, 16, 64])) / rng.choice([1, 1, 2, 4]) if mode == "grid" else F(rng.uniform(0.3, 20))
        cases.append({"nodes": nodes, "flat": flat, "exact": mode == "grid", "family": "%s/n=%d" % (mode, len(nodes))})
    return cases

def run_impl(c):
    sp = [[[float(h[0]), float(h[1])] for h in node] for node in c["nodes"]]
    plot_utils.subdivideCubicPath(sp, float(c["flat"]))
    return {"out": [[(F(h[0]), F(h[1])) for h in node] for node in sp]}

def _node(nd):
    # the implementation receives floats: the model gets exactly those values
    return "(mknode (%s, %s) (%s, %s) (%s, %s))" % tuple(cq(F(float(v))) for h in nd for v in h)

def coq_case(c, r):
    scale = max([abs(v) for nd in c["nodes"] for h in nd for v in h] + [F(1)])
    impl = "None" if "raise" in r else "(Some %s)" % clist([_node(nd) for nd in r["out"]])
    return "(K10 %s %s %s %s %s)" % (cb(c["exact"]), cq(c["flat"]), cq(scale), clist([_node(nd) for nd in c["nodes"]]), impl)

def nontrivial(c, r):
    return "out" in r and len(r["out"]) > len(c["nodes"])

def explain(c, r):
    return {"nodes": [[(float(h[0]), float(h[1])) for h in nd] for nd in c["nodes"]], "flat": float(c["flat"]),
            "output_nodes": len(r.get("out", [])), "output": [[(float(h[0]), float(h[1])) for h in nd] for nd in r.get("out", [])][:12]}

def shrink(c):
    nodes = c["nodes"]
    if len(nodes) > 2:
        for i in range(len(nodes)):
            yield dict(c, nodes=nodes[:i] + nodes[i + 1:])
    for i, nd in enumerate(nodes):
        for j in range(3):
            x, y = nd[j]; nx, ny = F(round(x)), F(round(y))
            if (nx, ny) != (x, y):
                nn = copy.deepcopy(nodes); nn[i][j] = (nx, ny); yield dict(c, nodes=nn)
    if c["flat"] < 64: yield dict(c, flat=c["flat"] * 2)
