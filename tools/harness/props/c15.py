"""C15 firmware version gating: numeric version order in both layers, EBB3.connect, legacy feature gates."""
from packaging.version import parse as vparse
from common import cz, cb, clist, ctext, cnat, copt
from props import ebb3sim as S
from plotink import ebb_serial, ebb_motion, ebb3_serial

ID = "C15"
CFG = (True, True, True, True)
COQ_HEADER = "From Plotink Require Import Base.Prelude Base.PyStr Model.Serial3 Model.SerialLegacy Model.LegacyGates Corr.S3 Corr.C15.\nOpen Scope Z_scope."
COQ_RUN = "run15"
COQ_CASE_TYPE = "case15"
SHARD = 120
RULE = ("version pairs a.b.c (1..4 components, multi-digit, leading zeros) around every threshold used (2.2.3, 2.5.5, 2.6.0, 3.0.2) with 9 -> 10 roll-overs, "
        "judged against packaging.version in both layers' min_version; EBB3.connect on a fresh object for handshakes {prompt, late (first probe empty), silent, "
        "non-EBB, old firmware, exception at open / each write / each read} x {first board, by name, no board}; histories on one object: every ordered pair of handshakes (good, old, old multi-digit, late old, non-EBB, silent, open fails) with 1-2 repeated connect() calls, optional disconnect, then requests, judged by the gate (nothing but the version probe reaches a device that has not identified itself as a supported EBB); each legacy gated helper "
        "(servo_timeout, queryVoltage, query_nickname, write_nickname, reboot) against boards reporting versions around its threshold, silent boards and faults; "
        "non-trivial = a version pair with a multi-digit component, or a handshake / gate case with a reply")
TRUSTED = ["packaging.version as the reference order on dotted decimal versions (Model/Serial3.v parse_version / ver_cmp is compared with it on every pair)",
           "fake port / fake comports as in C04"]
ASSUMPTIONS = ["version strings are dotted decimals; a verified EBB reply carries 'Firmware Version <dotted decimal>'"]

THR = [(2, 2, 3), (2, 5, 5), (2, 6, 0), (3, 0, 2)]

def _ver(rng):
    k = rng.random()
    if k < 0.6:
        t = list(rng.choice(THR)); i = rng.randrange(3); t[i] = max(0, t[i] + rng.choice([-1, 0, 1, 7, 8, 97])); 
        if rng.random() < 0.3: t[rng.randrange(3)] = rng.choice([9, 10, 11, 99, 100])
    else:
        t = [rng.choice([0, 1, 2, 3, 10]), rng.randint(0, 12), rng.randint(0, 120)]
    if rng.random() < 0.08: t[rng.randrange(3)] = rng.choice([999, 1000, 1001, 9999, 10**6, 2**31])          # fields of four and more digits (date-like build numbers)
    n = rng.choice([3, 3, 3, 2, 1, 4])
    t = (t + [rng.choice([0, 0, 1])])[:n]
    s = ".".join(("0" + str(x)) if rng.random() < 0.05 else str(x) for x in t)
    return s

def generate(rng, tier):
    cases = []
    n = 300 if tier == "quick" else 20000
    for _ in range(n):
        want = rng.choice(["2.2.3", "2.5.5", "2.6.0", "3.0.2", _ver(rng)])
        cases.append({"kind": "v", "have": _ver(rng), "want": want, "family": "version-order"})
    # connect
    hs = [("prompt", ["E", "E", ("L", S.GOOD_VERSION), "E", ("L", "CU,OK"), "E", ("L", "QT,Bot")]),
          ("late", ["E", "E", "E", "E", ("L", S.GOOD_VERSION), "E", ("L", "CU"), "E", ("L", "QT,")]),
          ("silent", ["E", "E", "E", "E", "E"]), ("not-ebb", ["E", "E", ("L", "Arduino ready"), "E", ("L", "??")]),
          ("blank-lines", ["E", "E", ("L", ""), "E", ("L", "")]), ("text-then-blank", ["E", "E", ("L", "ok"), "E", ("L", " ")]), ("blank-then-silent", ["E", "E", ("L", ""), "E", "E"]),
          ("open-fault", ["F"]), ("write1-fault", ["E", "F"]), ("read1-fault", ["E", "E", "F"]), ("write2-fault", ["E", "E", "E", "F"]), ("read2-fault", ["E", "E", "E", "E", "F"]),
          ("nick-timeout", ["E", "E", ("L", S.GOOD_VERSION), "E", ("L", "CU,OK"), "E"] + ["E"] * 27),
          ("ebb-second-probe-old", ["E", "E", ("L", "garbage"), "E", ("L", "EBBv13_and_above EB Firmware Version 2.8.1")]),
          # another maker's controller that answers the probe with a recent-looking version text of its own: not an EBB
          ("other-controller", ["E", "E", ("L", "GRBL-HAL Controller Firmware Version 4.1.0"), "E", ("L", "GRBL-HAL Controller Firmware Version 4.1.0"), "E", ("L", "CU,OK"), "E", ("L", "QT,Bot")]),
          ("other-controller", ["E", "E", ("L", "Marlin Firmware Version 3.0.2"), "E", ("L", "ok"), "E", ("L", "CU,OK"), "E", ("L", "QT,Bot")]),
          ("other-controller", ["E", "E", ("L", "hello"), "E", ("L", "Smoothie Firmware Version 12.0.0"), "E", ("L", "CU,OK"), "E", ("L", "QT,Bot")])]
    m = 60 if tier == "quick" else 4000
    for _ in range(m):
        v = _ver(rng)
        hs2 = hs + [("version:" + v, ["E", "E", ("L", "EBBv13_and_above EB Firmware Version " + v), "E", ("L", "CU,OK"), "E", ("L", "QT,Bot")])]
        name, ev = rng.choice(hs2)
        ports, given = rng.choice([(S.GOOD_PORTS, None), (S.GOOD_PORTS, "Bot"), (S.GOOD_PORTS, "abc"), ([("COM1", "modem", "USB VID:PID=1:2")], None),
                                   ([("COM1", "modem", "x"), ("COM5", "USB Serial Device (COM5)", "USB VID:PID=04D8:FD92 SER=Bot LOCATION=1")], "bot"), ([], None)])
        cases.append({"kind": "c", "ports": ports, "given": given, "events": ev, "family": "connect/" + name.split(":")[0]})
    # histories on one object: every handshake, then 0-2 further connect() calls (same or another handshake), then requests:
    # a device that has not identified itself as a supported EBB must never be sent anything but the version probe
    hsk = [("good", S.connect_script()), ("old", ["E", "E", ("L", "EBBv13_and_above EB Firmware Version 2.8.1")]),
           ("old-multidigit", ["E", "E", ("L", "EBBv13_and_above EB Firmware Version 2.10.12")]), ("old-late", ["E", "E", "E", "E", ("L", "EBBv13_and_above EB Firmware Version 3.0.1")]),
           ("old-after-junk", ["E", "E", ("L", "!8 Err: Unknown command"), "E", ("L", "EBBv13_and_above EB Firmware Version 2.9.9")]),
           ("not-ebb", ["E", "E", ("L", "hello"), "E", ("L", "world")]),
           ("other-controller", ["E", "E", ("L", "GRBL-HAL Controller Firmware Version 4.1.0"), "E", ("L", "Controller Firmware Version 4.1.0")]), ("silent", ["E", "E", "E", "E", "E"]), ("open-fails", ["F"]),
           ("blank-lines", ["E", "E", ("L", ""), "E", ("L", " ")])]
    reps = 1 if tier == "quick" else 15
    for _ in range(reps):
        for n1, h1 in hsk:
            for n2, h2 in [("none", None)] + hsk:
              # after a successful connection both continuations are always tried: connecting again while connected, and disconnecting
              # first (the object then still remembers the earlier board: its version, its port name)
              for disc in ([None] if (n1 != "good" or h2 is None) else [None, True]):
                calls = [("connect", S.GOOD_PORTS, None)]; ev = list(h1)
                again = rng.choice([1, 1, 2]) if h2 is not None else 0
                for _ in range(again):
                    if disc or rng.random() < 0.25: calls.append(("disconnect",))
                    calls.append(("connect", S.GOOD_PORTS, None)); ev += list(h2)
                for _ in range(rng.randint(1, 3)):
                    t = S.random_call(rng); calls.append(t); ev += S.nominal(t, rng)
                cases.append({"kind": "h", "calls": calls, "events": ev, "family": "history/%s/%s%s" % (n1, n2, "/after-disconnect" if disc else "")})
    # a board refused for its firmware keeps its port open: every one of the request methods on such an object (systematic)
    for n1, h1 in hsk[1:4]:
        for m in S.ALL_REQUESTS[:: (1 if tier != "quick" else 2)] + ["reboot", "bootload"]:
            t = S.sample_call(m, rng)
            cases.append({"kind": "h", "calls": [("connect", S.GOOD_PORTS, None), t], "events": list(h1) + S.nominal(t, rng), "family": "refused/%s/%s" % (n1, m)})
    # a device that has dropped off the bus by the time it is refused: closing its port fails with pyserial's exception; the refusal
    # (False, an error recorded, nothing kept) stands all the same
    for c in list(cases):
        if c["kind"] in ("c", "h") and rng.random() < 0.3:
            cases.append(dict(c, close_raises=True, family=c["family"] + "/close-fails"))
    # legacy gates
    gates = [("servo", (500, None)), ("servo", (0, 1)), ("voltage", ()), ("query_nick", ()), ("write_nick", ("Bot",)), ("reboot", ()), ("min_version", ("2.5.5",))]
    g = 120 if tier == "quick" else 8000
    for _ in range(g):
        kind, args = rng.choice(gates)
        k = rng.random()
        if k < 0.65:
            v = _ver(rng); ev = ["E"] + ["E"] * rng.choice([0, 0, 1, 3]) + [("L", "EBBv13_and_above EB Firmware Version " + v)]; fam = "reports-version"
        elif k < 0.75: ev = ["E"] + ["E"] * 102; fam = "silent"
        elif k < 0.85: ev = ["E", ("L", "hello there")]; fam = "no-version-text"
        else: ev = rng.choice([["F"], ["E", "F"], ["E", "E", "F"]]); fam = "fault"
        # then whatever the gated exchange needs
        ev += ["E", ("L", rng.choice(["OK", "0300,0310", "QT", "Bot"])), ("L", "OK"), "E", ("L", "OK")]
        cases.append({"kind": "g", "g": kind, "args": args, "events": ev, "family": "gate/%s/%s" % (kind, fam)})
    return cases

def rng_pad(v):
    """trailing blanks / line end the board may send after the number (deterministic in the version text)"""
    return ["", " ", "\r\n", "  \r\n"][sum(map(ord, v)) % 4]

def run_impl(c):
    if c["kind"] == "v":
        ref = vparse(c["have"]) >= vparse(c["want"])
        # the version reaches the object the way connect() stores it: through parse_version() on the board's reply
        e = ebb3_serial.EBB3(); e.parse_version("EBBv13_and_above EB Firmware Version " + c["have"] + rng_pad(c["have"]))
        r3 = e.min_version(c["want"]) if e.version_parsed is not None else None
        script = S.Script(["E", ("L", "EBBv13_and_above EB Firmware Version " + c["have"])]); port = S.FakePort(script)
        rl = ebb_serial.min_version(port, c["want"])
        return {"ref": bool(ref), "ebb3": r3, "legacy": rl}
    if c["kind"] == "c":
        obs = S.run_history([("connect", c["ports"], c["given"])], c["events"], c.get("close_raises", False))
        return {"obs": S.jsonable_obs(obs)}
    if c["kind"] == "h":
        return {"obs": S.jsonable_obs(S.run_history(c["calls"], c["events"], c.get("close_raises", False)))}
    script = S.Script(c["events"]); port = S.FakePort(script)
    raised, ret = None, None
    try:
        g, a = c["g"], c["args"]
        if g == "servo": ret = ebb_motion.servo_timeout(port, a[0], a[1], False)
        elif g == "voltage": ret = ebb_motion.queryVoltage(port, False)
        elif g == "query_nick": ret = ebb_serial.query_nickname(port, False)
        elif g == "write_nick": ret = ebb_serial.write_nickname(port, a[0])
        elif g == "reboot": ret = ebb_serial.reboot(port)
        elif g == "min_version": ret = ebb_serial.min_version(port, a[0])
    except BaseException as e:
        raised = type(e).__name__
    return {"raised": raised, "ret": ret, "writes": [d.decode("latin-1") for d in port.writes], "consumed": script.consumed}

def _ob(v): return "None" if v is None else "(Some %s)" % cb(v)
def _grv(v):
    if v is None: return "GNone"
    if isinstance(v, bool): return "(GBool %s)" % cb(v)
    return "(GText %s)" % ctext(str(v))

def coq_case(c, r):
    if c["kind"] == "v":
        if "raise" in r: return "(K15v %s %s true None None)" % (ctext(c["have"]), ctext(c["want"]))
        return "(K15v %s %s %s %s %s)" % (ctext(c["have"]), ctext(c["want"]), cb(r["ref"]), _ob(r["ebb3"]), _ob(r["legacy"]))
    if c["kind"] == "c":
        if "raise" in r: return "(K15c %s [] None [] (mkobs true RNone [] None false None 0%%nat))" % S.coq_cfg(*CFG)
        ports = clist(["(%s, %s, %s)" % (ctext(p[0]), ctext(p[1]), ctext(p[2])) for p in c["ports"]])
        given = "None" if c["given"] is None else "(Some %s)" % ctext(c["given"])
        return "(K15c %s %s %s %s %s)" % (S.coq_cfg(*CFG), ports, given, S.coq_script(c["events"]), S.coq_obs(r["obs"][0]))
    if c["kind"] == "h":
        if "raise" in r: return "(K15h %s [] [(CStatus, mkobs true RNone [] None false None 0%%nat)])" % S.coq_cfg(*CFG)
        return "(K15h %s %s %s)" % (S.coq_cfg(*CFG), S.coq_script(c["events"]), S.coq_history(c["calls"], r["obs"]))
    g, a = c["g"], c["args"]
    gs = {"servo": lambda: "(G_Servo %s %s)" % (cz(a[0]), copt(a[1], cz)), "voltage": lambda: "G_Voltage", "query_nick": lambda: "G_QueryNick",
          "write_nick": lambda: "(G_WriteNick %s)" % ctext(a[0]), "reboot": lambda: "G_Reboot", "min_version": lambda: "(G_MinVersion %s)" % ctext(a[0])}[g]()
    if "raise" in r and "writes" not in r:
        return "(K15g %s [] (mkgobs true GNone [%s] 0%%nat))" % (gs, ctext("harness"))
    return "(K15g %s %s (mkgobs %s %s %s %s))" % (gs, S.coq_script(c["events"]), cb(r["raised"] is not None), _grv(r["ret"]),
                                                  clist([ctext(w) for w in r["writes"]]), cnat(r["consumed"]))

def nontrivial(c, r):
    if c["kind"] == "v": return any(len(x) > 1 for x in (c["have"] + "." + c["want"]).split("."))
    return any(isinstance(e, tuple) for e in c["events"])

def explain(c, r):
    d = {k: (v if not isinstance(v, (list, tuple)) else [str(x) for x in v]) for k, v in c.items() if k != "events"}
    d["script"] = [e if isinstance(e, str) else e[1] for e in c.get("events", [])][:40]
    d["result"] = r
    return d

def shrink(c):
    return []
