"""C14 rtree.Index: intersection query = brute force."""
import sys
from fractions import Fraction as F
from common import cq, cz, cb, clist
from plotink import rtree

ID = "C14"
STRICT = False         # which constructor model the implementation is compared with (True = as found at 547df41, False = repaired, /repo e004255)
COQ_HEADER = "From Plotink Require Import Base.Prelude Model.Rtree Corr.C14.\nOpen Scope Q_scope."
COQ_RUN = "run14"
COQ_CASE_TYPE = "case14"
SHARD = 150
RULE = ("1-4 earlier queries on the same index (their result sets edited by the caller) before the judged query; box lists of 0..60 boxes over small integer / half-integer / random rational grids with duplicates, nesting, shared edges, "
        "zero-width, zero-height and point boxes, symmetric pairs that put box edges on the mean centre line; queries touching at an edge "
        "or corner only, containing, contained, disjoint; each list is run on Fractions (compared with the model and brute force) and on floats "
        "(compared with brute force); non-trivial = at least 2 boxes and a non-empty brute-force answer")
TRUSTED = ["python Fraction arithmetic = exact rational arithmetic; set semantics of the returned ids"]
ASSUMPTIONS = ["boxes have min<=max on both axes; finite coordinates"]

def _coord(rng, mode):
    if mode == 0: return F(rng.randint(0, 6))
    if mode == 1: return F(rng.randint(0, 12), 2)
    if mode == 2: return F(rng.randint(-1000, 1000), rng.randint(1, 50))
    return F(rng.randint(-20, 20))

def _box(rng, mode):
    kind = rng.random()
    x1, y1 = _coord(rng, mode), _coord(rng, mode)
    if kind < 0.15:   return (x1, y1, x1, y1)                                   # point
    if kind < 0.35:   return (x1, y1, x1 + abs(_coord(rng, mode)), y1)          # zero height
    if kind < 0.55:   return (x1, y1, x1, y1 + abs(_coord(rng, mode)))          # zero width
    return (x1, y1, x1 + abs(_coord(rng, mode)), y1 + abs(_coord(rng, mode)))

def _boxes(rng, nmax):
    mode = rng.randint(0, 3)
    n = rng.choice([0, 1, 1, 2, 2, 3, 4, 5, 8, 13, nmax // 2, nmax])
    bs = []
    while len(bs) < n:
        b = _box(rng, mode)
        r = rng.random()
        bs.append(b)
        if r < 0.2 and len(bs) < n: bs.append(b)                                 # duplicate
        elif r < 0.4 and len(bs) < n:                                            # mirror image about x = m: centre line through edges
            m = _coord(rng, mode)
            bs.append((2 * m - b[2], b[1], 2 * m - b[0], b[3]))
        elif r < 0.5 and len(bs) < n:
            m = _coord(rng, mode)
            bs.append((b[0], 2 * m - b[3], b[2], 2 * m - b[1]))
    ids = list(range(len(bs)))
    if rng.random() < 0.3:
        ids = [rng.randint(0, 5) for _ in bs]                                    # repeated identifiers
    return list(zip(ids, bs)), mode

def _queries(rng, bs, mode, k):
    qs = []
    for _ in range(k):
        r = rng.random()
        if bs and r < 0.5:
            _, b = rng.choice(bs)
            w = abs(_coord(rng, mode)); h = abs(_coord(rng, mode))
            t = rng.randint(0, 5)
            if t == 0: q = (b[2], b[3], b[2] + w, b[3] + h)          # touches the max corner
            elif t == 1: q = (b[0] - w, b[1] - h, b[0], b[1])        # touches the min corner
            elif t == 2: q = (b[2], b[1], b[2] + w, b[3])            # shares the right edge
            elif t == 3: q = (b[0], b[3], b[2], b[3] + h)            # shares the top edge
            elif t == 4: q = b                                       # identical
            else: q = (b[0] - w, b[1] - h, b[2] + w, b[3] + h)       # contains
        elif r < 0.6:
            q = (F(-10**6), F(-10**6), F(10**6), F(10**6))
        else:
            q = _box(rng, mode)
        qs.append(q)
    return qs

def generate(rng, tier):
    nl, nq, nmax = (110, 4, 40) if tier == "quick" else (1500, 6, 60)
    cases = [{"boxes": [(7, (F(0), F(1), F(5), F(1)))], "q": (F(0), F(0), F(9), F(9)), "exact": True, "family": "design-witness"}]
    for _ in range(nl):
        bs, mode = _boxes(rng, nmax)
        for q in _queries(rng, bs, mode, nq):
            cases.append({"boxes": bs, "q": q, "exact": True, "family": "fraction/mode%d" % mode})
            if rng.random() < 0.5:
                cases.append({"boxes": bs, "q": q, "exact": False, "family": "float/mode%d" % mode})
    # floats at both ends of the double range (finite, min <= max): sums of two coordinates overflow, halves do not
    H = 2.0 ** 1023
    for _ in range(max(2, nl // 50)):
        def far(sign):           # an interval whose two ends are both beyond 2^1023 in magnitude (their sum is not a double, their halves are)
            lo, hi = sorted([sign * rng.uniform(1.05, 1.9) * H, sign * rng.uniform(1.05, 1.9) * H]); return F(lo), F(hi)
        def near(): lo, hi = sorted([F(rng.randint(-5, 5)), F(rng.randint(-5, 5))]); return lo, hi
        bs = []
        axis = rng.choice("xy")
        for i, sign in enumerate([1, -1] + [rng.choice([1, -1, 0]) for _ in range(rng.randint(0, 3))]):
            u = far(sign) if sign else near(); v = near() if rng.random() < 0.7 else far(rng.choice([1, -1]))
            bs.append((i, (u[0], v[0], u[1], v[1]) if axis == "x" else (v[0], u[0], v[1], u[1])))
        bs.append((len(bs), (F(0), F(0), F(1), F(1))))
        for q in [bs[0][1], bs[-1][1], (F(-H), F(-H), F(H), F(H)), bs[1][1]]:
            cases.append({"boxes": bs, "q": q, "exact": False, "family": "float/huge"})
    # several bit-identical point boxes (dots plotted on top of each other) at coordinates whose n-fold mean does not round back to the
    # coordinate itself (0.9, 1.8, 3.1, 3.6 for three dots; 0.1, 0.2, 1.0 for six or seven), alone and among ordinary strokes
    for _ in range(max(6, nl // 10)):
        x = rng.choice([0.9, 1.8, 3.1, 3.6, 0.1, 0.2, 1.0, 0.3, 2.7]); y = rng.choice([0.9, 1.8, 3.1, 3.6, 0.1, 0.2, 1.0, 5.3])
        k = rng.choice([3, 3, 6, 7, 5, 9]); bs = [(i, (F(x), F(y), F(x), F(y))) for i in range(k)]
        if rng.random() < 0.6: bs += [(k, (F(0), F(0), F(5), F(0))), (k + 1, (F(2), F(1), F(2), F(4)))]
        rng.shuffle(bs)
        for q in [(F(x), F(y), F(x), F(y)), (F(0), F(0), F(10), F(10)), (F(x) - 1, F(y) - 1, F(x), F(y))]:
            cases.append({"boxes": bs, "q": q, "exact": False, "family": "float/identical-point-boxes"})
    # dense stacks: 31 .. 130 boxes that all contain one common point (dense hatching across a shape, nested frames), so that no split
    # separates them and they all sit in one node of the tree, in no particular order; queries at every kind of position across them
    for _ in range(max(6, nl // 12)):
        m = rng.choice([31, 32, 33, 40, 64, 130]); cx, cy = F(rng.randint(-20, 20)), F(rng.randint(-20, 20))
        bs = [(i, (cx - rng.randint(0, 60), cy - rng.randint(0, 9), cx + rng.randint(0, 60), cy + rng.randint(0, 9))) for i in range(m)]
        rng.shuffle(bs)
        if rng.random() < 0.4: bs += [(m + j, (cx + 100 + j, cy + 50, cx + 101 + j, cy + 51)) for j in range(rng.randint(1, 4))]
        for _ in range(nq):
            x = cx + rng.randint(-62, 62); y = cy + rng.randint(-10, 10)
            q = rng.choice([(x, y, x, y), (x, cy, x + rng.randint(0, 5), cy), (cx - 70, y, x, y + 1), (x, cy - 20, cx + 70, cy + 20)])
            cases.append({"boxes": bs, "q": q, "exact": rng.random() < 0.6, "family": "dense-stack/%d-boxes-around-one-point" % m})
    # a frame: one box (or two identical ones) equal to the extent of the whole collection (a page border), small boxes in the corners and
    # the middle; queries that lie wholly outside the extent (beside it, diagonally off a corner, touching an edge from outside), and inside
    for _ in range(max(6, nl // 12)):
        x0, y0 = F(rng.randint(-20, 20)), F(rng.randint(-20, 20)); w, h = F(rng.randint(4, 60)), F(rng.randint(4, 60)); x1, y1 = x0 + w, y0 + h
        bs = [(0, (x0, y0, x1, y1))] + ([(1, (x0, y0, x1, y1))] if rng.random() < 0.3 else [])
        k = len(bs)
        for cx, cy in [(x0, y0), (x1 - 1, y1 - 1), (x0, y1 - 1), (x1 - 1, y0), (x0 + w / 2, y0 + h / 2)][:rng.randint(2, 5)]:
            bs.append((k, (cx, cy, cx + rng.choice([0, 1]), cy + rng.choice([0, 1])))); k += 1
        rng.shuffle(bs)
        d = F(rng.choice([1, 5, 100])); t = rng.choice([F(0), F(1), F(1, 4)])
        qs = [(x1 + d, y1 + d, x1 + d + 9, y1 + d + 9), (x0 - d - 4, y0 + 1, x0 - d, y0 + 2), (x0, y1 + d, x1, y1 + d + 1), (x1 + t, y0, x1 + t + 3, y1),
              (x0 + 1, y0 + 1, x0 + 2, y0 + 2), (x0 - 9, y0 - 9, x0, y0), (x0 - 9, y0 - 9, x0 - F(1, 8), y0 + 3)]
        for q in rng.sample(qs, min(len(qs), nq + 1)):
            cases.append({"boxes": bs, "q": q, "exact": rng.random() < 0.6, "family": "frame-equal-to-the-whole-extent"})
    # a drawing with detail at every scale: 56 .. 72 small boxes at 10^k (or 16^k) along a diagonal - every split peels off only the
    # one or two largest, so the tree is 28 .. 36 levels deep and the smallest boxes sit at the bottom; queries at every scale
    for _ in range(max(2, nl // 150)):
        m = rng.choice([56, 64, 72]); base = rng.choice([10, 10, 16]); inv = False
        def at(k): return F(1, base ** k) if inv else F(base ** k)
        bs = [(k, (at(k), at(k), at(k) * F(3, 2), at(k) * F(5, 4))) for k in range(m)]
        if rng.random() < 0.5: rng.shuffle(bs)
        ks = [0, 1, 2, m - 1, m // 2, rng.randrange(m), rng.randrange(m)]
        for k in ks[:nq + 2]:
            q = rng.choice([(at(k), at(k), at(k) * F(3, 2), at(k) * F(3, 2)), (at(k) * F(11, 10), at(k) * F(11, 10), at(k) * F(12, 10), at(k) * F(12, 10)),
                            (F(0), F(0), at(k) * 2, at(k) * 2)])
            cases.append({"boxes": bs, "q": q, "exact": rng.random() < 0.5, "family": "detail-at-every-scale/%d-boxes" % m})
    # an index is built once and queried many times: 1-4 earlier queries on the same index (whole extent, halves and quadrants of the
    # extent, single boxes; the caller keeps and edits the sets it was given) must not change the answer to the judged query
    for _ in range(nl):
        bs, mode = _boxes(rng, nmax)
        if not bs: continue
        x0 = min(b[0] for _, b in bs); y0 = min(b[1] for _, b in bs); x1 = max(b[2] for _, b in bs); y1 = max(b[3] for _, b in bs)
        xm = (x0 + x1) / 2; ym = (y0 + y1) / 2
        regions = [(x0, y0, x1, y1), (x0, y0, x1, ym), (x0, ym, x1, y1), (x0, y0, xm, y1), (xm, y0, x1, y1), (x0, y0, xm, ym), (xm, ym, x1, y1), (x0, ym, xm, y1), (xm, y0, x1, ym)]
        for q in _queries(rng, bs, mode, 2) + [rng.choice(regions)]:
            pre = [rng.choice(regions + [b for _, b in bs[:3]]) for _ in range(rng.randint(1, 4))]
            cases.append({"boxes": bs, "q": q, "pre": pre, "exact": rng.random() < 0.7, "family": "after-earlier-queries/mode%d" % mode})
    return cases

def run_impl(c):
    conv = (lambda v: v) if c["exact"] else float
    bs = [(i, tuple(conv(v) for v in b)) for i, b in c["boxes"]]
    q = tuple(conv(v) for v in c["q"])
    old = sys.getrecursionlimit()
    sys.setrecursionlimit(400)
    try:
        idx = rtree.Index(bs)
        for p in c.get("pre", []):
            got = idx.intersection(tuple(conv(v) for v in p))
            got.add(-12345); got.discard(bs[0][0])          # the returned set is the caller's to edit
        ids = idx.intersection(q)
    finally:
        sys.setrecursionlimit(old)
    return {"ids": sorted(ids)}

def _cbox(b):
    return "(mkbox %s %s %s %s)" % tuple(cq(F(v)) for v in b)

def coq_case(c, r):
    conv = (lambda v: v) if c["exact"] else (lambda v: F(float(v)))
    bs = clist(["(%s, %s)" % (cz(i), _cbox([conv(v) for v in b])) for i, b in c["boxes"]])
    q = _cbox([conv(v) for v in c["q"]])
    impl = "None" if "raise" in r else "(Some %s)" % clist([cz(i) for i in r["ids"]])
    return "(K14 %s %s %s %s %s)" % (cb(STRICT), cb(c["exact"]), bs, q, impl)

def _brute(c):
    q = c["q"]
    return sorted({i for i, b in c["boxes"] if not (q[0] > b[2] or q[1] > b[3] or q[2] < b[0] or q[3] < b[1])})

def nontrivial(c, r):
    return len(c["boxes"]) >= 2 and len(_brute(c)) > 0

def explain(c, r):
    return {"brute_force": _brute(c), "implementation": r.get("ids"), "missed": sorted(set(_brute(c)) - set(r.get("ids", []))),
            "extra": sorted(set(r.get("ids", [])) - set(_brute(c)))}

def shrink(c):
    bs = c["boxes"]
    for k in range(len(bs)):
        yield dict(c, boxes=bs[:k] + bs[k + 1:])
    for k in range(len(bs)):
        i, b = bs[k]
        nb = tuple(F(round(v)) for v in b)
        if nb != b and nb[0] <= nb[2] and nb[1] <= nb[3]:
            yield dict(c, boxes=bs[:k] + [(i, nb)] + bs[k + 1:])

def _degenerate_miss(c, r):
    """finding class: an id is missed whose box has zero width/height or lies on a split line (strict quadrant tests)"""
    return bool(set(_brute(c)) - set(r.get("ids", []))) and not (set(r.get("ids", [])) - set(_brute(c)))
FINDING_CLASSES = {"rtree_strict_quadrants_drop_boxes": _degenerate_miss}
