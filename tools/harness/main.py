"""./check Cxx quick|thorough [--replay file]   (cwd /verif)"""
import os, sys, json, time, random, shutil, importlib, traceback, atexit

sys.path.insert(0, os.path.dirname(os.path.abspath(__file__)))
import logging
logging.disable(logging.CRITICAL)      # the library logs every injected fault; the harness records them itself
import common
from common import VERIF, REPO

sys.path.insert(0, REPO)          # the implementation under test is always /repo's working tree

def fail_line(pid, replay, nofail=False):
    print("VIOLATION property=%s replay=%s%s" % (pid, replay, " no-failing-input-found" if nofail else ""))

def main(argv):
    if len(argv) < 2:
        print(__doc__); return 2
    pid = argv[1].upper()
    tier = (argv[2] if len(argv) > 2 and not argv[2].startswith("--") else os.environ.get("VERIF_TIER", "quick"))
    tier = "thorough" if tier.startswith("t") else "quick"
    seed = int(os.environ.get("VERIF_SEED", "0") or 0)
    replay_file = None
    if "--replay" in argv:
        replay_file = argv[argv.index("--replay") + 1]
    t0 = time.time()
    mod = importlib.import_module("props." + pid.lower())
    work = os.path.join(VERIF, ".work", "%s.%d" % (pid, os.getpid()))
    os.makedirs(work, exist_ok=True)
    atexit.register(lambda: shutil.rmtree(work, ignore_errors=True))

    obligations, discharged = 0, 0
    broken = []         # list of (kind, name, detail)
    trusted = ["Coq 8.16.1 kernel incl. vm_compute (no native_compute)",
               "hand-written Gallina model of the anchored code, tied by this run's correspondence",
               "python harness: case generator, implementation runner, Coq literal encoder (tools/harness)"] + list(getattr(mod, "TRUSTED", []))

    # 1. theory build (no-op after setup) and source gate
    ok, out = common.build_theory(None)
    if not ok:
        broken.append(("build", "coq theory", out[-3000:]))
    bad = common.gate_sources()
    if bad:
        broken.append(("gate", "forbidden construct in development", "\n".join(bad[:20])))

    # 2. the property's theorem file
    props = {"theorems": [], "axioms": [], "compiled": False, "closed": 0}
    if ok:
        props = common.check_props_file(pid, work, getattr(mod, "ALLOWED_AXIOMS", []))
        obligations += len(props["theorems"])
        if props["compiled"]:
            discharged += len(props["theorems"])
        else:
            broken.append(("theorem-file", props["file"], props["output_tail"]))
        if props.get("bad_axioms"):
            broken.append(("axioms", props["file"], "axioms not on the allow-list: %s" % props["bad_axioms"]))

    # 2b. property-specific static obligations (e.g. regenerated kernels)
    extra = []
    if ok and hasattr(mod, "static_obligations"):
        extra = mod.static_obligations(work, tier)
        for name, good, detail in extra:
            obligations += 1
            if good:
                discharged += 1
            else:
                broken.append(("obligation", name, detail))

    # 3. cases: corpus first, then generated
    rng = random.Random((seed << 8) ^ int(pid[1:]))
    cases = []
    if replay_file:
        rp = json.load(open(replay_file))
        cases = [common.from_jsonable(rp["case"])]
    else:
        cdir = os.path.join(VERIF, "corpus", pid)
        if os.path.isdir(cdir):
            for f in sorted(os.listdir(cdir)):
                if f.endswith(".json"):
                    for c in json.load(open(os.path.join(cdir, f))):
                        c = common.from_jsonable(c); c.setdefault("family", "corpus"); cases.append(c)
        cases += mod.generate(rng, tier)

    # 4. run the implementation
    if hasattr(mod, "setup_impl"):
        mod.setup_impl()
    # the implementation runs take seconds on the unchanged tree; changed code can be pathologically slow: past the budget the
    # remaining cases are not run (recorded in the evidence) and the verdict is taken on the cases evaluated so far
    budget = float(os.environ.get("VERIF_IMPL_BUDGET", "240" if tier == "quick" else "3000"))
    t_impl = time.time(); results = []
    for c in cases:
        if time.time() - t_impl > budget:
            break
        results.append(guarded_run(mod, c))
    dropped = len(cases) - len(results)
    cases = cases[:len(results)]

    # 5. evaluate model + spec checker in Coq
    bad_codes, errors, _raw = {}, [], {}
    if ok:
        terms = []
        for i, (c, r) in enumerate(zip(cases, results)):
            try:
                terms.append(mod.coq_case(c, r))
            except Exception as e:
                # the implementation returned something outside the documented result type (e.g. None for a number): that is a
                # wrong answer on this input, not a reason for the harness to stop - it is encoded like a raising call
                results[i] = {"raise": "ResultOfUndocumentedType", "msg": ("%s; returned %r" % (e, r))[:300]}
                terms.append(mod.coq_case(c, results[i]))
        bad_codes, errors, _raw = common.run_coq_cases(work, mod.COQ_HEADER, mod.COQ_RUN, mod.COQ_CASE_TYPE, terms,
                                                       shard=getattr(mod, "SHARD", 400))
        for k, e in errors:
            broken.append(("cases-file", "shard starting at case %d" % k, e))
    obligations += 1      # the correspondence itself
    truncated = _raw.get("truncated", 0) if ok else 0
    mism = sorted(i for i, c in bad_codes.items() if c & 1)
    specfail = sorted(i for i, c in bad_codes.items() if c & 2)
    oracle_bad = sorted(i for i, c in bad_codes.items() if c & 4)
    if oracle_bad:
        broken.append(("oracle", "the Coq spec oracle disagrees with the reference library on %d cases (first: case %d)" % (len(oracle_bad), oracle_bad[0]),
                       json.dumps(common.to_jsonable({"case": cases[oracle_bad[0]], "impl_output": results[oracle_bad[0]]}))[:1500]))
    if ok and not errors and not mism:
        discharged += 1

    # 6. known findings
    findings = common.load_findings(pid)
    classes = getattr(mod, "FINDING_CLASSES", {})
    active = [f for f in findings if f.get("status") == "finding"]
    known_hits = {}
    def known(i):
        for f in active:
            pred = classes.get(f["class"])
            if pred and pred(cases[i], results[i]):
                return f
        return None
    new_spec, new_mism = [], []
    for i in specfail:
        f = known(i)
        if f: known_hits.setdefault(f["id"], []).append(i)
        else: new_spec.append(i)
    for i in mism:
        if i in specfail:
            continue
        f = known(i)
        if f: known_hits.setdefault(f["id"], []).append(i)
        else: new_mism.append(i)

    # 7. decide
    violations = 0
    lines = []
    header = mod.COQ_HEADER
    def replay_for(i, kind, extra=None):
        c, r = cases[i], results[i]
        obj = {"property": pid, "kind": kind, "family": c.get("family"), "case": common.to_jsonable(c),
               "impl_output": common.to_jsonable(r), "coq_case": mod.coq_case(c, r), "code": bad_codes.get(i),
               "seed": seed, "tier": tier,
               "how_to_rerun": "cd /verif && ./check %s %s --replay <this file>" % (pid, tier)}
        if hasattr(mod, "explain"):
            try: obj["explain"] = mod.explain(c, r)
            except Exception as e: obj["explain"] = "explain failed: %r" % e
        if extra: obj.update(extra)
        return common.write_replay(pid, obj)

    if new_spec:
        # shrink the first failing case if the property offers a shrinker
        i = new_spec[0]
        if hasattr(mod, "shrink") and not replay_file:
            try:
                sc, sr = shrink_case(mod, work, cases[i], results[i])
                cases.append(sc); results.append(sr); bad_codes[len(cases) - 1] = 2; i = len(cases) - 1
            except Exception:
                pass
        violations = len(new_spec)
        lines.append(("viol", replay_for(i, "counterexample", {"all_failing_indices": new_spec[:50]}), False))
    elif new_mism or [b for b in broken]:
        # a broken obligation/correspondence with no failing input among everything explored
        violations = 1
        if new_mism:
            i = new_mism[0]
            lines.append(("viol", replay_for(i, "broken-correspondence",
                         {"obligation": "correspondence model<->implementation (%s), family %s" % (mod.COQ_RUN, cases[i].get("family")),
                          "disagreeing_indices": new_mism[:50]}), True))
        else:
            k, n, d = broken[0]
            rp = common.write_replay(pid, {"property": pid, "kind": "broken-obligation", "obligation": "%s: %s" % (k, n),
                                           "detail": d, "all_broken": [(a, b) for a, b, _ in broken], "seed": seed, "tier": tier})
            lines.append(("viol", rp, True))

    for f in active:
        print("KNOWN-FINDING: property=%s %s [%s; %d matching cases this run]" % (pid, f["text"], f["id"], len(known_hits.get(f["id"], []))))
    for _, rp, nofail in lines:
        fail_line(pid, rp, nofail)

    # 8. evidence
    nontriv = set()
    fam = {}
    for c, r in zip(cases, results):
        fam[c.get("family", "?")] = fam.get(c.get("family", "?"), 0) + 1
        try:
            if mod.nontrivial(c, r):
                nontriv.add(json.dumps(common.to_jsonable({k: v for k, v in c.items() if k != "family"}), sort_keys=True))
        except Exception:
            pass
    samples = []
    step = max(1, len(cases) // 5)
    for i in range(0, len(cases), step):
        samples.append({"case": common.to_jsonable(cases[i]), "impl_output": common.to_jsonable(results[i])})
        if len(samples) >= 6: break
    res_kinds = {}
    for r in results:
        k = "raise:" + r["raise"] if isinstance(r, dict) and "raise" in r else "return"
        res_kinds[k] = res_kinds.get(k, 0) + 1
    ev = {
        "property_id": pid, "tier": tier, "seed": seed, "level": "proof",
        "coverage": {
            "obligations": obligations, "discharged": discharged,
            "checker_cmd": "coqc -Q coq Plotink coq/Props/%s.v (kernel re-check of every theorem + Print Assumptions), then coqc on generated cases_*.v (vm_compute of model and spec checker against implementation outputs)" % pid,
            "trusted_base": trusted + ["axioms reported by Print Assumptions: %s" % (props["axioms"] or "none (closed under the global context)")],
            "theorems": props["theorems"], "theorems_closed_under_global_context": props.get("closed", 0),
            "static_obligations": [(n, g) for n, g, _ in extra],
            "evaluations": len(cases), "distinct_nontrivial": len(nontriv),
            "rule": getattr(mod, "RULE", ""), "samples": samples,
            "input_distribution": fam, "result_kinds": res_kinds, "cases_not_run_time_budget": dropped,
            "disagreements_checked": len(mism), "spec_failures": len(specfail), "failing_cases_not_listed": truncated,
            "known_finding_hits": {k: len(v) for k, v in known_hits.items()},
            "broken_obligations": [(k, n) for k, n, _ in broken],
            "exhaustive": bool(getattr(mod, "EXHAUSTIVE", False)),
        },
        "assumptions": list(getattr(mod, "ASSUMPTIONS", [])),
        "wall_s": round(time.time() - t0, 2),
        "violations": violations,
    }
    if not replay_file:
        common.write_evidence(pid, ev)
    print("%s %s: %d obligations, %d discharged; %d cases (%d distinct non-trivial); %d model/impl differences, %d spec failures; %.1fs"
          % (pid, tier, obligations, discharged, len(cases), len(nontriv), len(mism), len(specfail), time.time() - t0))
    return 1 if violations else 0


def shrink_case(mod, work, case, result, rounds=8):
    """Greedy batch shrinking: all candidates of a round are evaluated in one coqc call."""
    cur, cur_r = case, result
    for _ in range(rounds):
        cands = list(mod.shrink(cur))[:200]
        if not cands:
            break
        rs = []
        for c in cands:
            rs.append(guarded_run(mod, c))
        terms = [mod.coq_case(c, r) for c, r in zip(cands, rs)]
        bad, errors, _ = common.run_coq_cases(work, mod.COQ_HEADER, mod.COQ_RUN, mod.COQ_CASE_TYPE, terms, tag="shrink")
        failing = [i for i in sorted(bad) if bad[i] & 2]
        if not failing or errors:
            break
        cur, cur_r = cands[failing[0]], rs[failing[0]]
        cur["family"] = str(case.get("family")) + "/shrunk"
    return cur, cur_r


class CaseTimeout(BaseException):
    pass

def guarded_run(mod, c):
    """run the implementation on one case; a raising or non-returning implementation becomes a result, not a dead harness.
    The per-case limit (default 60 s; ordinary cases take milliseconds) only matters for changed code that loops."""
    import signal
    limit = float(os.environ.get("VERIF_CASE_TIMEOUT", getattr(mod, "CASE_TIMEOUT", 60)))
    def on_alarm(sig, frm):
        raise CaseTimeout("implementation did not return within %g s" % limit)
    old = signal.signal(signal.SIGALRM, on_alarm)
    signal.setitimer(signal.ITIMER_REAL, limit)
    try:
        return mod.run_impl(c)
    except BaseException as e:
        return {"raise": type(e).__name__, "msg": str(e)[:200]}
    finally:
        signal.setitimer(signal.ITIMER_REAL, 0)
        signal.signal(signal.SIGALRM, old)


if __name__ == "__main__":
    try:
        sys.exit(main(sys.argv))
    except SystemExit:
        raise
    except BaseException:
        traceback.print_exc()
        # a crashing harness must never look like a pass
        pid = sys.argv[1].upper() if len(sys.argv) > 1 else "C00"
        rp = common.write_replay(pid, {"property": pid, "kind": "broken-obligation", "obligation": "harness crashed",
                                       "detail": traceback.format_exc()[-3000:]})
        fail_line(pid, rp, True)
        sys.exit(1)
