"""Shared machinery of the plotink verification checks.

One check run = (1) make sure the Coq theory is built, (2) re-check the
property's theorem file and read Print Assumptions, (3) generate cases from one
PRNG, run the implementation in /repo on them, (4) write cases_*.v files in
which Coq evaluates the model and the proved spec checker on the same inputs
and on the implementation's outputs, (5) decide, shrink, write replay and
evidence.  Nothing is kept outside /verif/.work/<id>.<pid> (removed at exit).
"""
import os, sys, re, json, time, random, shutil, subprocess, hashlib, fcntl, traceback
from fractions import Fraction
from concurrent.futures import ThreadPoolExecutor

VERIF = os.path.dirname(os.path.dirname(os.path.dirname(os.path.abspath(__file__))))
COQ = os.path.join(VERIF, "coq")
REPO = os.environ.get("PLOTINK_REPO", "/repo")
NPROC = min(16, os.cpu_count() or 4)

FORBIDDEN = re.compile(r"\b(Admitted|admit|Axiom|Axioms|Parameter|Parameters|Conjecture|Conjectures|Hypothesis|Variable|Variables|Hypotheses)\b|Unset\s+Guard|bypass_check|type-in-type|impredicative-set|Admit\s+Obligations|Require\s+Import[^.]*\b(Psatz|Lra|Reals|Classical|ClassicalEpsilon|FunctionalExtensionality|ProofIrrelevance|JMeq)\b")
# (the last alternative: libraries whose loading alone puts axioms into coqchk's context summary - the development is axiom-free and stays so;
#  lra over Q comes from Lqa, lia / nia from Lia)

# ---------------------------------------------------------------- Coq literals
def cz(n):
    n = int(n)
    return "(%d)%%Z" % n if n >= 0 else "(%d)%%Z" % n

def cq(x):
    x = Fraction(x)
    return "(%d # %d)" % (x.numerator, x.denominator)

def cb(b):
    return "true" if b else "false"

def cnat(n):
    assert 0 <= n < 5000
    return "%d%%nat" % n

def cstr(s):
    """Coq string from a python str/bytes, as a list of byte codes."""
    if isinstance(s, str):
        s = s.encode("latin-1")
    return "(str_of [" + ";".join("%d%%nat" % b for b in s) + "])"

def ctext(s):
    """python str -> Coq list of code points (text)"""
    return "[" + "; ".join("%d" % ord(ch) for ch in s) + "]%Z"

def clist(items):
    return "[" + "; ".join(items) + "]"

def copt(x, f):
    return "None" if x is None else "(Some %s)" % f(x)

# ------------------------------------------------------------ JSON-able values
def to_jsonable(v):
    if isinstance(v, Fraction):
        return {"q": "%d/%d" % (v.numerator, v.denominator)}
    if isinstance(v, bytes):
        return {"bytes": list(v)}
    if isinstance(v, float):
        return {"f": v.hex()} if v == v and abs(v) != float("inf") else {"fs": repr(v)}
    if isinstance(v, (list, tuple)):
        return [to_jsonable(x) for x in v]
    if isinstance(v, dict):
        return {str(k): to_jsonable(x) for k, x in v.items()}
    if isinstance(v, set):
        return {"set": sorted(to_jsonable(x) for x in v)}
    return v

def from_jsonable(v):
    if isinstance(v, dict):
        if set(v) == {"q"}:
            return Fraction(v["q"])
        if set(v) == {"bytes"}:
            return bytes(v["bytes"])
        if set(v) == {"f"}:
            return float.fromhex(v["f"])
        if set(v) == {"fs"}:
            return float(v["fs"])
        if set(v) == {"set"}:
            return set(from_jsonable(x) for x in v["set"])
        return {k: from_jsonable(x) for k, x in v.items()}
    if isinstance(v, list):
        return [from_jsonable(x) for x in v]
    return v

# ------------------------------------------------------------------- building
def sh(cmd, timeout, cwd=None, env=None):
    p = subprocess.run(cmd, shell=isinstance(cmd, str), cwd=cwd, env=env, timeout=timeout,
                       stdout=subprocess.PIPE, stderr=subprocess.STDOUT, text=True, errors="replace")
    return p.returncode, p.stdout

def build_theory(log):
    """Full .vo build of /verif/coq under a lock. Returns (ok, output)."""
    lock = open(os.path.join(VERIF, ".build.lock"), "w")
    fcntl.flock(lock, fcntl.LOCK_EX)
    try:
        if not os.path.exists(os.path.join(COQ, "Makefile")):
            rc, out = sh("coq_makefile -f _CoqProject -o Makefile", 120, cwd=COQ)
            if rc != 0:
                return False, out
        rc, out = sh("timeout 3000 make -j%d" % NPROC, 3100, cwd=COQ)
        return rc == 0, out
    finally:
        fcntl.flock(lock, fcntl.LOCK_UN)
        lock.close()

def gate_sources():
    """No Admitted/Axiom/... anywhere in the development. Returns list of offending lines."""
    bad = []
    for root, _, files in os.walk(COQ):
        for f in files:
            if not f.endswith(".v"):
                continue
            p = os.path.join(root, f)
            in_section = 0
            for i, line in enumerate(open(p, encoding="utf-8", errors="replace"), 1):
                code = re.sub(r"\(\*.*?\*\)", "", line)
                if re.match(r"\s*Section\b", code):
                    in_section += 1
                if re.match(r"\s*End\b", code) and in_section:
                    in_section -= 1
                m = FORBIDDEN.search(code)
                if m:
                    w = m.group(0)
                    # Variable/Hypothesis are allowed inside a Section only
                    if w.split()[0] in ("Variable", "Variables", "Hypothesis", "Hypotheses") and in_section:
                        continue
                    bad.append("%s:%d: %s" % (os.path.relpath(p, VERIF), i, line.strip()))
    return bad

def check_props_file(pid, work, allowed_axioms):
    """Recompile Props/<pid>.v into the work dir; parse theorem names and Print Assumptions."""
    src = os.path.join(COQ, "Props", pid + ".v")
    text = open(src).read()
    names = re.findall(r"^\s*(?:Theorem|Lemma|Example|Corollary)\s+(\w+)", text, re.M)
    out_vo = os.path.join(work, pid + ".vo")
    rc, out = sh(["timeout", "900", "coqc", "-Q", COQ, "Plotink", "-o", out_vo, src], 920)
    res = {"file": "coq/Props/%s.v" % pid, "theorems": names, "compiled": rc == 0, "axioms": [], "closed": 0,
           "bad_axioms": [], "output_tail": out[-2000:] if rc != 0 else ""}
    if rc == 0:
        res["closed"] = len(re.findall(r"Closed under the global context", out))
        # axioms are printed as "name : type" lines after "Axioms:"
        for block in re.findall(r"Axioms:\n((?:.+\n?)+?)(?=\n\S|\Z)", out):
            for m in re.finditer(r"^(\S+)\s*:", block, re.M):
                res["axioms"].append(m.group(1))
        res["axioms"] = sorted(set(res["axioms"]))
        res["bad_axioms"] = [a for a in res["axioms"] if a not in allowed_axioms]
    return res

# ------------------------------------------------------------ running cases.v
REPORT_RE = re.compile(r"\(\s*(-?\d+)\s*,\s*(-?\d+)\s*\)")

def run_coq_cases(work, header, run_fn, case_type, terms, shard=400, tag="cases", extra_evals=()):
    """terms: list of Coq terms (strings). Returns dict index -> code for non-zero codes,
    plus list of (shard, error text) for shards that failed to compile."""
    files = []
    for k in range(0, len(terms), shard):
        name = "%s_%d" % (tag, k // shard)
        path = os.path.join(work, name + ".v")
        with open(path, "w") as f:
            f.write(header + "\n")
            f.write("Definition cases : list %s := [\n" % case_type)
            f.write(";\n".join(terms[k:k + shard]))
            f.write("\n].\n")
            f.write("Eval vm_compute in (%s cases).\n" % run_fn)
            for e in extra_evals:
                f.write(e + "\n")
        files.append((k, path))

    def one(item):
        k, path = item
        rc, out = sh(["timeout", "600", "coqc", "-Q", COQ, "Plotink", "-Q", work, "Work", path], 620)
        return k, rc, out

    bad, errors, raw = {}, [], {}
    with ThreadPoolExecutor(max_workers=NPROC) as ex:
        for k, rc, out in ex.map(one, files):
            raw[k] = out
            if rc != 0:
                errors.append((k, out[-1500:]))
                continue
            # the report is printed as  = (N, K, [(i, c); ...])  : Z * Z * list (Z * Z)
            flat = re.sub(r"%[A-Za-z_]+|\s+", "", out)
            m = re.search(r"=\((\d+),(\d+),\[(.*?)\]\):Z\*Z\*list\(Z\*Z\)", flat)
            nshard = min(shard, len(terms) - k)
            if not m or int(m.group(1)) != nshard:
                errors.append((k, "unparsable or incomplete coqc report: " + out[-800:]))
                continue
            pairs = re.findall(r"\((-?\d+),(-?\d+)\)", m.group(3))
            if len(pairs) != min(40, int(m.group(2))):
                errors.append((k, "report list does not match its count: " + out[-800:]))
                continue
            for i, c in pairs:
                bad[k + int(i)] = int(c)
            if int(m.group(2)) > 40:
                raw["truncated"] = raw.get("truncated", 0) + int(m.group(2)) - 40
    return bad, errors, raw

def coq_eval(work, header, expr, name="probe"):
    path = os.path.join(work, name + ".v")
    with open(path, "w") as f:
        f.write(header + "\nEval vm_compute in (%s).\n" % expr)
    rc, out = sh(["timeout", "150", "coqc", "-Q", COQ, "Plotink", path], 170)
    return rc, out.strip()

# ------------------------------------------------------------------- findings
def load_findings(pid):
    p = os.path.join(VERIF, "known_findings.json")
    if not os.path.exists(p):
        return []
    data = json.load(open(p))
    return [e for e in data.get("entries", []) if e.get("property") == pid]

# ------------------------------------------------------------------- evidence
def write_evidence(pid, ev):
    os.makedirs(os.path.join(VERIF, "evidence"), exist_ok=True)
    p = os.path.join(VERIF, "evidence", pid + ".json")
    tmp = p + ".tmp.%d" % os.getpid()
    with open(tmp, "w") as f:
        json.dump(ev, f, indent=1, sort_keys=True)
        f.write("\n")
    os.replace(tmp, p)

def write_replay(pid, obj):
    d = os.path.join(VERIF, "replays")
    os.makedirs(d, exist_ok=True)
    blob = json.dumps(obj, sort_keys=True, indent=1)
    h = hashlib.sha1(blob.encode()).hexdigest()[:12]
    p = os.path.join(d, "%s-%s.json" % (pid, h))
    with open(p, "w") as f:
        f.write(blob + "\n")
    return os.path.relpath(p, VERIF)

def py_exc_name(e):
    return type(e).__name__

EXN_COQ = {"ZeroDivisionError": "ZeroDivisionError", "TypeError": "TypeError", "ValueError": "ValueError",
           "AttributeError": "AttributeError", "IndexError": "IndexError", "KeyError": "KeyError",
           "AssertionError": "AssertionError"}
def cexn(name):
    return EXN_COQ.get(name, "OtherError")


# ------------------------------------------------------------ kernels regenerated from the source (tools/py2v.py)
import contextlib
@contextlib.contextmanager
def debug_logging():
    """the host application has switched on debug logging: root logger at DEBUG with a handler (into a buffer), logging not disabled"""
    import logging, io
    root = logging.getLogger(); old_level = root.level; old_disable = logging.root.manager.disable
    hd = logging.StreamHandler(io.StringIO()); root.addHandler(hd); root.setLevel(logging.DEBUG); logging.disable(logging.NOTSET)
    try:
        yield
    finally:
        logging.disable(old_disable); root.setLevel(old_level); root.removeHandler(hd)


def ws_table_obligation(work):
    """PyStr.is_ws (the model of str.isspace, hence of str.strip) accepts exactly the code points this interpreter's str.isspace does:
    the table is recomputed inside Coq over every code point and compared with the interpreter's."""
    table = [c for c in range(0x110000) if chr(c).isspace()]
    path = os.path.join(work, "WsTable.v")
    with open(path, "w") as f:
        f.write("From Plotink Require Import Base.Prelude Base.PyStr.\nOpen Scope Z_scope.\n"
                "Definition ws_table := rev (snd (Pos.iter (fun st : Z * list Z => let (c, acc) := st in (c + 1, if is_ws c then c :: acc else acc)) (0, []) 1114112)).\n"
                "Goal ws_table = [%s]. Proof. vm_compute. reflexivity. Qed.\n" % "; ".join(map(str, table)))
    rc, out = sh(["timeout", "150", "coqc", "-Q", COQ, "Plotink", path], 170)
    return [("PyStr.is_ws = str.isspace on every code point", rc == 0, out[-1500:] if rc != 0 else "")]


def rounding_obligation(work, pid, precisions=(53, 103), n=400):
    """The rounding operators the code relies on, against Base.Rnd.round_ne applied to the exact result (Corr/Rounding.v): CPython float
    +, -, *, / (p = 53) and mpmath's +, -, *, /, sqrt at the calculators' working precision dps = 30 (p = 103), on generated operands
    (dyadic numbers of every size the calculators meet, operands of very different magnitude, ties, exact results, near-squares)."""
    import random, mpmath
    from fractions import Fraction
    rng = random.Random(20260101 + int(pid[1:]))
    terms = []
    def operand(p):
        k = rng.random()
        if k < 0.3: m = rng.randint(-2**31, 2**31); e = rng.choice([0, 0, -1, -2, 1, 31])
        elif k < 0.6: m = rng.getrandbits(rng.choice([p, p - 1, p // 2, 3, 64])) * rng.choice([1, -1]); e = rng.randint(-70, 40)
        elif k < 0.8: m = rng.choice([1, 3, 5, 2**p - 1, 2**(p - 1) + 1, 2**(p - 1)]) * rng.choice([1, -1]); e = rng.randint(-p - 5, p + 5)
        else: m = rng.randint(-10**6, 10**6); e = rng.randint(-6, 6)
        x = Fraction(m) * Fraction(2) ** e
        return x
    save = mpmath.mp.prec
    try:
        for p in precisions:
            if p == 53:
                conv = float; back = Fraction
                ops = [(0, lambda a, b: a + b), (1, lambda a, b: a - b), (2, lambda a, b: a * b), (3, lambda a, b: a / b)]
            else:
                mpmath.mp.dps = 30
                if mpmath.mp.prec != p: return [("rounding operators = round_ne (dps 30 is %d bits, %d expected)" % (mpmath.mp.prec, p), False, "")]
                conv = lambda q: mpmath.mpf(q.numerator) / mpmath.mpf(q.denominator) if q.denominator & (q.denominator - 1) else mpmath.ldexp(mpmath.mpf(q.numerator), -(q.denominator.bit_length() - 1))
                def back(v):
                    sign, man, exp, _ = v._mpf_
                    return Fraction(-int(man) if sign else int(man)) * Fraction(2) ** int(exp)
                ops = [(0, lambda a, b: a + b), (1, lambda a, b: a - b), (2, lambda a, b: a * b), (3, lambda a, b: a / b), (4, lambda a, b: mpmath.sqrt(a))]
            made = 0
            while made < n:
                a, b = operand(p), operand(p)
                if p == 53 and (max(a.numerator.bit_length(), b.numerator.bit_length()) > 53): continue
                if p != 53 and (max(a.numerator.bit_length(), b.numerator.bit_length()) > p): continue
                op, f = rng.choice(ops)
                if op == 3 and b == 0: continue
                if op == 4:
                    a = abs(a)
                    if rng.random() < 0.4: a = a * a if a.numerator.bit_length() * 2 <= p else a            # exact squares, and their neighbours
                    if rng.random() < 0.2: a = a + Fraction(1, 2 ** rng.randint(1, 60))
                    if a.numerator.bit_length() > p: continue
                try:
                    r = back(f(conv(a), conv(b)))
                except (OverflowError, ZeroDivisionError):
                    continue
                terms.append("(KR %d %d %s %s %s)" % (p, op, cq(a), cq(b), cq(r))); made += 1
    finally:
        mpmath.mp.prec = save
    bad, errors, _ = run_coq_cases(work, "From Plotink Require Import Base.Prelude Base.Rnd Corr.Rounding.\nOpen Scope Q_scope.", "runR", "rcase", terms, shard=200, tag="rounding")
    detail = ""
    if errors: detail = "shards failed: %s" % errors[:1]
    elif bad: detail = "operations whose result is not round_ne of the exact result: %s" % [terms[i] for i in list(bad)[:3]]
    return [("rounding operators of CPython floats and of mpmath at dps 30 = Base.Rnd.round_ne on %d generated operations" % len(terms), not bad and not errors, detail)]


def kernel_obligations(work, pid, source, names, mode="q"):
    """Translate the named loop-free functions of /repo's current `source` to Gallina and compile them together with the committed
    equivalence lemmas tools/py2v_eq/<pid>.v (which tie them to the hand-written model).  Returns [(name, good, detail)]."""
    sys.path.insert(0, os.path.join(VERIF, "tools"))
    import py2v
    label = "py2v: %s of %s translated from the current source" % (", ".join(names), source)
    try:
        text = py2v.translate(os.path.join(REPO, source), names, mode)
    except py2v.Unsupported as e:
        return [(label, False, "outside the translated subset: %s" % e)]
    except SyntaxError as e:
        return [(label, False, "source does not parse: %s" % e)]
    eqdir = os.path.join(VERIF, "tools", "py2v_eq")
    path = os.path.join(work, "Kernels_%s.v" % pid)
    with open(path, "w") as f:
        f.write(open(os.path.join(eqdir, "header.v" if mode == "q" else "header_zq.v")).read() + text + open(os.path.join(eqdir, pid + ".v")).read())
    rc, out = sh(["timeout", "150", "coqc", "-Q", COQ, "Plotink", path], 170)
    lemmas = re.findall(r"^Lemma\s+(\w+)", open(os.path.join(eqdir, pid + ".v")).read(), re.M)
    return [(label, True, ""),
            ("regenerated kernels = hand model (%s)" % ", ".join(lemmas), rc == 0, out[-1500:] if rc != 0 else "")]
