#!/usr/bin/env python3
"""tools/seed_prompts.py <round-seed>: write one prompt per property to /tmp/prompts/<id>.txt for independent sub-agents that are asked for a
breaking change (DESIGN.md 0.5).  A prompt contains the property text, the one-line descriptions of the changes earlier rounds produced
(columns "change" and "needs" of the tables in DESIGN.md - nothing about the checks), two suggested angles, and the deliverables."""
import json, re, random, sys, os
random.seed(int(sys.argv[1]) if len(sys.argv) > 1 else 0)
V = os.path.dirname(os.path.dirname(os.path.abspath(__file__)))
props = {json.loads(l)['id']: json.loads(l) for l in open(os.path.join(V, 'properties.jsonl'))}
prior = {k: [] for k in props}
for l in open(os.path.join(V, 'DESIGN.md')):
    m = re.match(r'\| (C\d\d)(-[a-z])? \| (.*?) \| (.*?) \|', l)
    # rows of the seeded-change tables only: the theorem table (0.2) and the section-6 status table have the same first column
    if m and m.group(1) in prior and not m.group(3).startswith('see ') and not re.search(r'Proofs/|Model/|Props/|Corr/|∀|theorem|correspondence', l):
        prior[m.group(1)].append("- %s (needed: %s)" % (m.group(3), m.group(4)))
ANGLES = [
 "the way arguments are passed or typed (keyword vs positional, int vs float vs Fraction vs numpy scalar vs str vs bool, tuple vs list vs generator, subclass instances, default arguments, None)",
 "state that survives between calls (module-level caches, memoisation, attributes set by an earlier method, mutable default arguments, class-level vs instance-level data, objects shared between results)",
 "two cooperating edits in different functions or files that each look fine alone",
 "an 'optimisation' or early-exit fast path whose guard condition is subtly too wide",
 "a boundary of a numeric range, a length, a count or a loop bound (off by one, <= vs <, empty or single-element input, the largest/smallest legal value)",
 "error handling and unusual-but-legal environments (exception classes, partial reads, slow devices, encodings, platform-specific formats)",
 "a refactor that changes evaluation order, operator precedence, integer vs true division, rounding mode, or the precision at which an intermediate value is kept",
 "a small helper function that the anchored code calls (or a module constant it reads) rather than the anchored function itself",
 "replacing one library facility by an 'equivalent' one (mpmath by decimal/fractions/float, str methods by regular expressions, manual loops by builtins such as min/max/sorted/zip/any, copy vs alias)",
 "behaviour that differs between the first and later iterations of a loop, or between the first and later elements / requests / lines",
 "numeric extremes that are still legal inputs (very large or very small magnitudes, subnormals, negative zero, integers far beyond 2^64 where the property allows them, values exactly on a documented limit)",
 "text extremes that are still legal inputs (empty strings, very long strings, embedded separators or control characters, non-ASCII where allowed, leading/trailing/interior white space)",
 "the interaction of two public functions of the library (the output of one fed to another, or two functions that must agree with each other)",
 "a clause of the property that is easy to overlook (read every sentence of the statement: secondary promises such as 'nothing else is sent', 'is left unchanged', 'the same objects', 'agree with each other', 'in order', 'never raises')",
 "what happens on the SECOND use of something (second connect, second query on one index, second call with the same object, a value written twice, a document read twice)"]
os.makedirs('/tmp/prompts', exist_ok=True)
for pid, p in props.items():
    wt = "/tmp/wt_%s" % pid
    ang = random.sample(ANGLES, 2)
    txt = f"""You are helping to evaluate a verification effort for the Python library evil-mad/plotink (helper library for EiBotBoard pen plotters). You have your own scratch git worktree of the library at {wt} (work ONLY there; never touch /repo or /verif, and do not read anything under /verif). Python to use: /venv/bin/python (run with PYTHONPATH={wt} so that `import plotink` picks up YOUR worktree; check with `python -c "import plotink; print(plotink.__file__)"`). The test suite: cd {wt} && /venv/bin/python -m pytest -q -p no:cacheprovider  (33 tests, must all still pass after your change). IMPORTANT: never use `git stash` (the stash is shared between all worktrees of the repository and other people are working in sibling worktrees at the same time); to go back and forth between the original and your change use `git -C {wt} diff -- plotink > /tmp/{pid}_change.diff`, `git -C {wt} apply -R /tmp/{pid}_change.diff` (original) and `git -C {wt} apply /tmp/{pid}_change.diff` (changed). Keep your own messages short: write files with the editing tools rather than printing long texts in your replies.

Here is a semantic property that the library is supposed to satisfy:

  [{pid}] {p['title']}
  {p['statement']}

  Code anchors: {json.dumps(p['anchors']['mechanism'])}

YOUR TASK: write ONE realistic change to the library source (under {wt}/plotink/) that BREAKS this property while the code still imports/compiles and all 33 existing tests still pass. The change must look like something a maintainer could plausibly commit (a refactor, an optimisation, a 'tidy-up', a bug fix gone wrong, a new fast path, a caching layer, changed default, re-ordered statements...), not sabotage with an obvious marker. It must need something SPECIFIC to manifest - an unusual input, a boundary value, a particular multi-step sequence of operations, a fault at a particular point, particular prior state of an object, or two cooperating sites that each look fine alone - so that ordinary use and casual testing would NOT expose it at once. Prefer subtle over blunt.

Changes of the following kinds have ALREADY been tried by others for this property, so do something genuinely different (a different site, mechanism, or triggering condition):
{chr(10).join(prior[pid]) if prior[pid] else '(none)'}

Two angles that have been explored less and that you might consider (you are free to ignore them if you find something better): (1) {ang[0]}; (2) {ang[1]}.

The violation must be a violation of the property AS STATED above, on inputs the property covers (read its wording carefully: its domain, what it promises, what it leaves open) - not a change of behaviour outside the property's scope.

Deliverables, all inside the directory {wt}/_seed/ (create it):
  1. patch.diff  - output of `git -C {wt} diff -- plotink` (the change only; do not include _seed or tests). Leave the change applied in the worktree too.
  2. demo.py     - a small standalone program (no pytest needed; may use only the standard library, the plotink package and what is installed in /venv) that exits 0 on the ORIGINAL code and exits non-zero (assert failure or sys.exit(1)) on the CHANGED code, demonstrating the property violation through public functions/methods of the library. For serial-port code, pass in a small fake port object (write/readline/close etc.) - no hardware exists. It must insert {wt} at the front of sys.path itself (sys.path.insert(0, "{wt}")).
  3. notes.md    - what was changed, why it breaks the property, exactly what is needed for it to manifest, and why the existing tests do not notice.

Before finishing, VERIFY yourself (without git stash, see above): (a) demo.py exits 0 on the original and non-zero with the change; (b) all 33 tests pass with the change. Report in your final answer: a one-line description of the change, what it needs to manifest, and the outcome of (a) and (b).
"""
    open('/tmp/prompts/%s.txt' % pid, 'w').write(txt)
print("wrote", len(props), "prompts")
