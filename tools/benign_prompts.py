#!/usr/bin/env python3
"""tools/benign_prompts.py <round-seed>: write one prompt per property to /tmp/bprompts/<id>.txt for independent sub-agents that are asked for a
HARMLESS rewrite of the code a property is anchored in (behaviour-preserving on every input the property covers).  The checks must stay
silent on such changes (DESIGN.md 0.6); where a check's proof obligation is tied to the shape of the source (tools/py2v.py) an alarm ending in
no-failing-input-found is the designed outcome and is recorded as such."""
import json, random, sys, os
random.seed(int(sys.argv[1]) if len(sys.argv) > 1 else 0)
V = os.path.dirname(os.path.dirname(os.path.abspath(__file__)))
props = {json.loads(l)['id']: json.loads(l) for l in open(os.path.join(V, 'properties.jsonl'))}
KINDS = [
 "extract a small helper function or inline one",
 "rename local variables, reorder independent statements, restructure if/elif chains into early returns (or the reverse)",
 "change log / error message wording, add logging calls, add docstrings and comments, add type hints",
 "replace string formatting style (format() / f-strings / % / concatenation) without changing the produced text",
 "use additional harmless features of the libraries involved (for serial ports: flush(), reset_output_buffer(), is_open checks, opening with extra keyword arguments such as write_timeout; for numbers: equivalent exact integer arithmetic)",
 "replace a loop by an equivalent comprehension / builtin, or the reverse; replace tuple unpacking styles; copy arguments before use",
 "introduce module-level constants for magic numbers; convert chained comparisons; add defensive assertions that can never fire on valid input"]
os.makedirs('/tmp/bprompts', exist_ok=True)
for pid, p in props.items():
    wt = "/tmp/wt_%s" % pid
    kinds = random.sample(KINDS, 3)
    txt = f"""You are helping to evaluate a verification effort for the Python library evil-mad/plotink (helper library for EiBotBoard pen plotters). You have your own scratch git worktree of the library at {wt} (work ONLY there; never touch /repo or /verif, and do not read anything under /verif). Python to use: /venv/bin/python (run with PYTHONPATH={wt} so that `import plotink` picks up YOUR worktree). The test suite: cd {wt} && /venv/bin/python -m pytest -q -p no:cacheprovider  (33 tests, must all still pass after your change). IMPORTANT: never use `git stash`; to go back and forth between the original and your change use `git -C {wt} diff -- plotink > /tmp/{pid}_benign.diff`, `git -C {wt} apply -R /tmp/{pid}_benign.diff` and `git -C {wt} apply /tmp/{pid}_benign.diff`. Keep your own messages short: write files with the editing tools rather than printing long texts in your replies.

Here is a semantic property that the library satisfies:

  [{pid}] {p['title']}
  {p['statement']}

  Code anchors: {json.dumps(p['anchors']['mechanism'])}

YOUR TASK: make a HARMLESS, realistic maintenance change to the anchored code (under {wt}/plotink/) - the kind of refactor or tidy-up a maintainer commits every week - that changes the source text substantially (20-80 changed lines is a good size, touching the anchored functions themselves) but does NOT change the observable behaviour relevant to this property on ANY input the property covers: same return values (bit for bit for floats), same bytes written to ports in the same order, same exceptions or absence of exceptions, same recorded errors (the wording of log and error messages MAY change), same mutation of arguments. Combine two or three of these kinds of edit: (1) {kinds[0]}; (2) {kinds[1]}; (3) {kinds[2]}. Do not 'fix' anything and do not change behaviour outside the property either, as far as you can tell.

Deliverables, all inside the directory {wt}/_seed/ (create it):
  1. patch.diff  - output of `git -C {wt} diff -- plotink`. Leave the change applied in the worktree too.
  2. demo.py     - a small standalone program (standard library + plotink + what is installed in /venv only) that exercises the anchored code on a few hundred varied inputs (for serial-port code through a small fake port object) and prints a SHA-256 digest of all observable results (return values with repr(), bytes written, exception class names); it must insert {wt} at the front of sys.path itself. The digest must be IDENTICAL on the original and on the changed code.
  3. notes.md    - what was changed and why it is behaviour-preserving.

Before finishing, VERIFY yourself (without git stash): (a) demo.py prints the same digest on the original and on the changed code; (b) all 33 tests pass with the change. Report in your final answer: a one-line description of the change and the outcome of (a) and (b).
"""
    open('/tmp/bprompts/%s.txt' % pid, 'w').write(txt)
print("wrote", len(props), "prompts")
