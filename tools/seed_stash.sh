#!/bin/bash
# tools/seed_stash.sh <ID>: keep a finished sub-agent's _seed directory under seeded/_pending/<ID> and remove its worktree
ID=$1; WT=/tmp/wt_$ID
[ -d $WT/_seed ] || { echo "no seed in $WT"; exit 1; }
mkdir -p /verif/seeded/_pending/$ID && cp -r $WT/_seed/. /verif/seeded/_pending/$ID/ && echo $WT > /verif/seeded/_pending/$ID/orig_wt
git -C /repo worktree remove --force $WT && echo "stashed $ID"
