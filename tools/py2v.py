#!/usr/bin/env python3
"""py2v: fail-closed translator of loop-free numeric Python functions to Gallina over Q.

    translate(path, names) -> Coq text with one `Definition t_<name>` per function

Supported subset (anything else raises Unsupported, and the obligation that depends on the translation is reported broken):
  def f(a, b, c=<number>)                       arguments are rationals, or pairs / pairs of pairs when they are destructured
  x, y = p ; [[a, b], [c, d]] = q               destructuring of an argument (pairs)
  v = <expr> ; v |= <int>                       straight-line bindings; |= only on integer-valued locals
  if <cond>: <block ending in return>           early return (the rest of the body becomes the else branch)
  if <cond>: ... else: ...                      both ending in return
  if <cond>: <assignments only>                 conditional update of locals (no else)
  return <expr> | return <expr>, <expr>
  expressions: names, int/float/bool literals, + - * / unary -, < <= > >= == != (chained), and / or / not,
               min(a, b), max(a, b), abs(a), p[0], p[1], calls of other translated functions
Conventions of the output (chosen to coincide with the hand-written models, so that the equivalence lemmas are short):
  a < b -> Qltb a b ; a > b -> Qltb b a ; a <= b -> Qleb a b ; a >= b -> Qleb b a ; == -> Qeqb
  min / max -> pymin / pymax (Python's: the first argument wins a tie) ; integers under |= -> Z with Z.lor
"""
import ast, sys
from fractions import Fraction


class Unsupported(Exception):
    pass


def _q(v):
    f = Fraction(repr(v)) if isinstance(v, float) else Fraction(v)
    if f.denominator == 1:
        return "(%d)" % f.numerator if f.numerator < 0 else "%d" % f.numerator
    return "(%d # %d)" % (f.numerator, f.denominator)


class Fn:
    def __init__(self, node, known):
        self.node, self.known = node, known
        self.zvars = set()          # locals that hold integers manipulated with |=
        for n in ast.walk(node):
            if isinstance(n, ast.AugAssign):
                if not (isinstance(n.op, ast.BitOr) and isinstance(n.target, ast.Name)):
                    raise Unsupported("augmented assignment other than |= at line %d" % n.lineno)
                self.zvars.add(n.target.id)
            if isinstance(n, (ast.For, ast.While, ast.Try, ast.With, ast.Lambda, ast.ListComp, ast.Raise, ast.Global, ast.Nonlocal, ast.Yield)):
                raise Unsupported("%s at line %d" % (type(n).__name__, n.lineno))

    # ---------------------------------------------------------------- expressions
    def z(self, e):
        if isinstance(e, ast.Constant) and isinstance(e.value, int) and not isinstance(e.value, bool):
            return "%d%%Z" % e.value if e.value >= 0 else "(%d)%%Z" % e.value
        if isinstance(e, ast.Name) and e.id in self.zvars:
            return e.id
        if isinstance(e, ast.BinOp) and isinstance(e.op, ast.BitOr):
            return "(Z.lor %s %s)" % (self.z(e.left), self.z(e.right))
        raise Unsupported("integer expression at line %d" % e.lineno)

    def expr(self, e):
        if isinstance(e, ast.Name):
            if e.id in self.zvars:
                return e.id
            return e.id
        if isinstance(e, ast.Constant):
            if isinstance(e.value, bool):
                return "true" if e.value else "false"
            if isinstance(e.value, (int, float)):
                return _q(e.value)
            raise Unsupported("constant %r at line %d" % (e.value, e.lineno))
        if isinstance(e, ast.UnaryOp):
            if isinstance(e.op, ast.USub):
                return "(- %s)" % self.expr(e.operand)
            if isinstance(e.op, ast.Not):
                return "(negb %s)" % self.expr(e.operand)
            raise Unsupported("unary operator at line %d" % e.lineno)
        if isinstance(e, ast.BinOp):
            ops = {ast.Add: "+", ast.Sub: "-", ast.Mult: "*", ast.Div: "/"}
            if type(e.op) not in ops:
                raise Unsupported("binary operator %s at line %d" % (type(e.op).__name__, e.lineno))
            return "(%s %s %s)" % (self.expr(e.left), ops[type(e.op)], self.expr(e.right))
        if isinstance(e, ast.Compare):
            parts, left = [], e.left
            for op, right in zip(e.ops, e.comparators):
                a, b = self.expr(left), self.expr(right)
                if isinstance(op, ast.Lt): parts.append("Qltb %s %s" % (a, b))
                elif isinstance(op, ast.Gt): parts.append("Qltb %s %s" % (b, a))
                elif isinstance(op, ast.LtE): parts.append("Qleb %s %s" % (a, b))
                elif isinstance(op, ast.GtE): parts.append("Qleb %s %s" % (b, a))
                elif isinstance(op, ast.Eq): parts.append("Qeqb %s %s" % (a, b))
                elif isinstance(op, ast.NotEq): parts.append("negb (Qeqb %s %s)" % (a, b))
                else: raise Unsupported("comparison %s at line %d" % (type(op).__name__, e.lineno))
                left = right
            return "(" + " && ".join("(%s)" % p for p in parts) + ")" if len(parts) > 1 else "(%s)" % parts[0]
        if isinstance(e, ast.BoolOp):
            op = " && " if isinstance(e.op, ast.And) else " || "
            return "(" + op.join(self.expr(v) for v in e.values) + ")"
        if isinstance(e, ast.Subscript):
            idx = e.slice
            if isinstance(idx, ast.Constant) and idx.value in (0, 1):
                return "(%s %s)" % ("fst" if idx.value == 0 else "snd", self.expr(e.value))
            raise Unsupported("subscript at line %d" % e.lineno)
        if isinstance(e, ast.Call) and isinstance(e.func, ast.Name) and not e.keywords:
            f, args = e.func.id, [self.expr(a) for a in e.args]
            if f in ("min", "max") and len(args) == 2:
                return "(py%s %s %s)" % (f, args[0], args[1])
            if f == "abs" and len(args) == 1:
                return "(Qabs %s)" % args[0]
            if f in self.known:
                return "(t_%s %s)" % (f, " ".join(args))
            raise Unsupported("call of %s at line %d" % (f, e.lineno))
        if isinstance(e, ast.Tuple):
            return "(" + ", ".join(self.expr(x) for x in e.elts) + ")"
        raise Unsupported("%s at line %d" % (type(e).__name__, e.lineno))

    def value(self, target, e):
        """right-hand side for a binding of `target`"""
        return self.z(e) if target in self.zvars else self.expr(e)

    # ---------------------------------------------------------------- patterns
    def pattern(self, t):
        if isinstance(t, ast.Name):
            return t.id
        if isinstance(t, (ast.Tuple, ast.List)) and len(t.elts) == 2:
            return "(%s, %s)" % (self.pattern(t.elts[0]), self.pattern(t.elts[1]))
        raise Unsupported("assignment target at line %d" % t.lineno)

    # ---------------------------------------------------------------- statements
    def block(self, stmts):
        if not stmts:
            raise Unsupported("a path through the function ends without return")
        s, rest = stmts[0], stmts[1:]
        if isinstance(s, ast.Expr) and isinstance(s.value, ast.Constant) and isinstance(s.value.value, str):
            return self.block(rest)                      # docstring
        if isinstance(s, ast.Return):
            if s.value is None:
                raise Unsupported("bare return at line %d" % s.lineno)
            return self.expr(s.value) if not (isinstance(s.value, ast.Name) and s.value.id in self.zvars) else s.value.id
        if isinstance(s, ast.Assign) and len(s.targets) == 1:
            t = s.targets[0]
            if isinstance(t, ast.Name):
                return "let %s := %s in\n  %s" % (t.id, self.value(t.id, s.value), self.block(rest))
            return "let '%s := %s in\n  %s" % (self.pattern(t), self.expr(s.value), self.block(rest))
        if isinstance(s, ast.AugAssign):
            return "let %s := Z.lor %s %s in\n  %s" % (s.target.id, s.target.id, self.z(s.value), self.block(rest))
        if isinstance(s, ast.If):
            c = self.expr(s.test)
            body_returns = self.returns(s.body)
            if s.orelse:
                if body_returns and self.returns(s.orelse):
                    if rest:
                        raise Unsupported("code after an if/else that always returns, line %d" % s.lineno)
                    return "(if %s then %s else %s)" % (c, self.block(s.body), self.block(s.orelse))
                raise Unsupported("if/else that does not return on both sides at line %d" % s.lineno)
            if body_returns:
                return "(if %s then %s else %s)" % (c, self.block(s.body), self.block(rest))
            # conditional update of locals
            out = ""
            for a in s.body:
                if isinstance(a, ast.Assign) and len(a.targets) == 1 and isinstance(a.targets[0], ast.Name):
                    v = a.targets[0].id
                    out += "let %s := if %s then %s else %s in\n  " % (v, c, self.value(v, a.value), v)
                elif isinstance(a, ast.AugAssign):
                    v = a.target.id
                    out += "let %s := if %s then Z.lor %s %s else %s in\n  " % (v, c, v, self.z(a.value), v)
                else:
                    raise Unsupported("statement inside a non-returning if at line %d" % a.lineno)
            return out + self.block(rest)
        raise Unsupported("%s at line %d" % (type(s).__name__, s.lineno))

    def returns(self, stmts):
        """does every path through stmts end in return?"""
        if not stmts:
            return False
        last = stmts[-1]
        if isinstance(last, ast.Return):
            return True
        if isinstance(last, ast.If) and last.orelse:
            return self.returns(last.body) and self.returns(last.orelse)
        return False

    def definition(self):
        n = self.node
        a = n.args
        if a.vararg or a.kwarg or a.kwonlyargs or a.posonlyargs:
            raise Unsupported("argument form of %s" % n.name)
        names = [x.arg for x in a.args]
        out = "Definition t_%s %s :=\n  %s." % (n.name, " ".join(names), self.block(n.body))
        for arg, d in zip(names[len(names) - len(a.defaults):], a.defaults):      # default argument values, as constants of their own
            if not (isinstance(d, ast.Constant) and isinstance(d.value, (int, float)) and not isinstance(d.value, bool)):
                raise Unsupported("default value of %s in %s" % (arg, n.name))
            out += "\nDefinition t_%s_default_%s := %s." % (n.name, arg, _q(d.value))
        return out


def translate(path, names):
    tree = ast.parse(open(path).read(), path)
    found = {n.name: n for n in tree.body if isinstance(n, ast.FunctionDef)}
    out = []
    for name in names:
        if name not in found:
            raise Unsupported("function %s not found in %s" % (name, path))
        out.append(Fn(found[name], set(names)).definition())
    return "\n\n".join(out) + "\n"


if __name__ == "__main__":
    try:
        sys.stdout.write(translate(sys.argv[1], sys.argv[2:]))
    except Unsupported as e:
        sys.stderr.write("py2v: unsupported: %s\n" % e)
        sys.exit(3)
