#!/usr/bin/env python3
"""py2v: fail-closed translator of loop-free numeric Python functions to Gallina over Q.

    translate(path, names) -> Coq text with one `Definition t_<name>` per function

Supported subset (anything else raises Unsupported, and the obligation that depends on the translation is reported broken):
  def f(a, b, c=<number>)                       arguments are rationals, or pairs / pairs of pairs when they are destructured
  x, y = p ; [[a, b], [c, d]] = q               destructuring of an argument (pairs)
  v = <expr> ; v |= <int>                       straight-line bindings; |= only on integer-valued locals
  if <cond>: <block ending in return>           early return (the rest of the body becomes the else branch)
  if <cond>: ... else: ...                      both ending in return
  if <cond>: <assignments only>                 conditional update of locals (no else)
  return <expr> | return <expr>, <expr>
  expressions: names, int/float/bool literals, + - * / unary -, < <= > >= == != (chained), and / or / not,
               min(a, b), max(a, b), abs(a), p[0], p[1], bool(c), a if c else b, calls of other translated functions
  tolerated around the functions (so that harmless maintenance edits do not leave the subset): module-level numeric constants (inlined),
  module-level helper functions that are themselves in the subset (translated too, before their callers), annotated assignments,
  logging calls as statements (no value)
Conventions of the output (chosen to coincide with the hand-written models, so that the equivalence lemmas are short):
  a < b -> Qltb a b ; a > b -> Qltb b a ; a <= b -> Qleb a b ; a >= b -> Qleb b a ; == -> Qeqb
  min / max -> pymin / pymax (Python's: the first argument wins a tie) ; integers under |= -> Z with Z.lor
"""
import ast, sys
from fractions import Fraction


class Unsupported(Exception):
    pass


def _q(v):
    f = Fraction(repr(v)) if isinstance(v, float) else Fraction(v)
    if f.denominator == 1:
        return "(%d)" % f.numerator if f.numerator < 0 else "%d" % f.numerator
    return "(%d # %d)" % (f.numerator, f.denominator)


class Fn:
    checking = False            # True while the assertion-check function is generated (returns become `true`, an assert a test)
    has_asserts = False
    def __init__(self, node, known):
        self.node, self.known = node, known
        self.zvars = set()          # locals that hold integers manipulated with |=
        for n in ast.walk(node):
            if isinstance(n, ast.AugAssign):
                if isinstance(self, FnZQ) and isinstance(n.op, (ast.Sub, ast.Add)) and isinstance(n.target, ast.Name):
                    continue
                if not (isinstance(n.op, ast.BitOr) and isinstance(n.target, ast.Name)):
                    raise Unsupported("augmented assignment other than |= at line %d" % n.lineno)
                self.zvars.add(n.target.id)
            if isinstance(n, (ast.For, ast.While, ast.Try, ast.With, ast.Lambda, ast.ListComp, ast.Raise, ast.Global, ast.Nonlocal, ast.Yield)):
                raise Unsupported("%s at line %d" % (type(n).__name__, n.lineno))
            if isinstance(n, ast.Assert):
                self.has_asserts = True

    # ---------------------------------------------------------------- expressions
    def z(self, e):
        if isinstance(e, ast.Constant) and isinstance(e.value, int) and not isinstance(e.value, bool):
            return "%d%%Z" % e.value if e.value >= 0 else "(%d)%%Z" % e.value
        if isinstance(e, ast.Name) and e.id in self.zvars:
            return e.id
        if isinstance(e, ast.BinOp) and isinstance(e.op, ast.BitOr):
            return "(Z.lor %s %s)" % (self.z(e.left), self.z(e.right))
        if isinstance(e, ast.BinOp) and isinstance(e.op, ast.BitAnd):
            return "(Z.land %s %s)" % (self.z(e.left), self.z(e.right))
        if isinstance(e, ast.UnaryOp) and isinstance(e.op, ast.Invert):
            return "(Z.lnot %s)" % self.z(e.operand)
        raise Unsupported("integer expression at line %d" % e.lineno)

    def is_flags(self, e):
        """an expression over the flag-word locals (|=) and integer literals with | & ~"""
        if isinstance(e, ast.Name): return e.id in self.zvars
        if isinstance(e, ast.BinOp) and isinstance(e.op, (ast.BitOr, ast.BitAnd)): return (self.is_flags(e.left) or self.is_flags(e.right)) and all(self.is_flags(x) or (isinstance(x, ast.Constant) and isinstance(x.value, int)) or (isinstance(x, ast.UnaryOp) and isinstance(x.op, ast.Invert)) for x in (e.left, e.right))
        return False

    def expr(self, e):
        if isinstance(e, ast.Name):
            if e.id in self.zvars:
                return e.id
            return e.id
        if isinstance(e, ast.Constant):
            if isinstance(e.value, bool):
                return "true" if e.value else "false"
            if isinstance(e.value, (int, float)):
                return _q(e.value)
            raise Unsupported("constant %r at line %d" % (e.value, e.lineno))
        if isinstance(e, ast.UnaryOp):
            if isinstance(e.op, ast.USub):
                return "(- %s)" % self.expr(e.operand)
            if isinstance(e.op, ast.Not):
                return "(negb %s)" % self.expr(e.operand)
            raise Unsupported("unary operator at line %d" % e.lineno)
        if isinstance(e, ast.BinOp):
            ops = {ast.Add: "+", ast.Sub: "-", ast.Mult: "*", ast.Div: "/"}
            if type(e.op) not in ops:
                raise Unsupported("binary operator %s at line %d" % (type(e.op).__name__, e.lineno))
            return "(%s %s %s)" % (self.expr(e.left), ops[type(e.op)], self.expr(e.right))
        if isinstance(e, ast.Compare) and len(e.ops) == 1 and isinstance(e.ops[0], (ast.Eq, ast.NotEq)) and self.is_flags(e.left) \
                and isinstance(e.comparators[0], ast.Constant) and isinstance(e.comparators[0].value, int):
            t = "(Z.eqb %s %s)" % (self.z(e.left), self.z(e.comparators[0]))       # a test on a flag word
            return t if isinstance(e.ops[0], ast.Eq) else "(negb %s)" % t
        if isinstance(e, ast.Compare):
            parts, left = [], e.left
            for op, right in zip(e.ops, e.comparators):
                a, b = self.expr(left), self.expr(right)
                if isinstance(op, ast.Lt): parts.append("Qltb %s %s" % (a, b))
                elif isinstance(op, ast.Gt): parts.append("Qltb %s %s" % (b, a))
                elif isinstance(op, ast.LtE): parts.append("Qleb %s %s" % (a, b))
                elif isinstance(op, ast.GtE): parts.append("Qleb %s %s" % (b, a))
                elif isinstance(op, ast.Eq): parts.append("Qeqb %s %s" % (a, b))
                elif isinstance(op, ast.NotEq): parts.append("negb (Qeqb %s %s)" % (a, b))
                else: raise Unsupported("comparison %s at line %d" % (type(op).__name__, e.lineno))
                left = right
            return "(" + " && ".join("(%s)" % p for p in parts) + ")" if len(parts) > 1 else "(%s)" % parts[0]
        if isinstance(e, ast.BoolOp):
            op = " && " if isinstance(e.op, ast.And) else " || "
            return "(" + op.join(self.expr(v) for v in e.values) + ")"
        if isinstance(e, ast.Subscript):
            idx = e.slice
            if isinstance(idx, ast.Constant) and idx.value in (0, 1):
                return "(%s %s)" % ("fst" if idx.value == 0 else "snd", self.expr(e.value))
            raise Unsupported("subscript at line %d" % e.lineno)
        if isinstance(e, ast.Call) and isinstance(e.func, ast.Name) and not e.keywords:
            f, args = e.func.id, [self.expr(a) for a in e.args]
            if f in ("min", "max") and len(args) == 2:
                return "(py%s %s %s)" % (f, args[0], args[1])
            if f == "abs" and len(args) == 1:
                return "(Qabs %s)" % args[0]
            if f == "bool" and len(args) == 1 and isinstance(e.args[0], (ast.Compare, ast.BoolOp)):
                return args[0]
            if f in self.known:
                return "(t_%s %s)" % (f, " ".join(args))
            raise Unsupported("call of %s at line %d" % (f, e.lineno))
        if isinstance(e, ast.Tuple):
            return "(" + ", ".join(self.expr(x) for x in e.elts) + ")"
        if isinstance(e, ast.IfExp):
            return "(if %s then %s else %s)" % (self.expr(e.test), self.expr(e.body), self.expr(e.orelse))
        raise Unsupported("%s at line %d" % (type(e).__name__, e.lineno))

    def value(self, target, e):
        """right-hand side for a binding of `target`"""
        return self.z(e) if target in self.zvars else self.expr(e)

    # ---------------------------------------------------------------- patterns
    def pattern(self, t):
        if isinstance(t, ast.Name):
            return t.id
        if isinstance(t, (ast.Tuple, ast.List)) and len(t.elts) == 2:
            return "(%s, %s)" % (self.pattern(t.elts[0]), self.pattern(t.elts[1]))
        raise Unsupported("assignment target at line %d" % t.lineno)

    # ---------------------------------------------------------------- statements
    def block(self, stmts):
        if not stmts:
            raise Unsupported("a path through the function ends without return")
        s, rest = stmts[0], stmts[1:]
        if isinstance(s, ast.Expr) and isinstance(s.value, ast.Constant) and isinstance(s.value.value, str):
            return self.block(rest)                      # docstring
        if isinstance(s, ast.Expr) and isinstance(s.value, ast.Call) and ast.unparse(s.value.func).split(".")[0] in ("logger", "logging", "log"):
            return self.block(rest)                      # a logging call: no value, no effect on the result
        if isinstance(s, ast.AnnAssign) and s.value is not None and isinstance(s.target, ast.Name):
            s2 = ast.Assign(targets=[s.target], value=s.value); ast.copy_location(s2, s); ast.fix_missing_locations(s2)
            return self.block([s2] + rest)
        if isinstance(s, ast.Assert):
            # an assertion is not part of the value; that it can never fire is a proof obligation of its own (t_<name>__asserts, below)
            if self.assert_is_type_test(s.test):
                return self.block(rest)
            if not self.checking:
                return self.block(rest)
            return "(if %s then %s else false)" % (self.expr(s.test), self.block(rest))
        if isinstance(s, ast.Return):
            if s.value is None:
                raise Unsupported("bare return at line %d" % s.lineno)
            if self.checking:
                return "true"
            return self.expr(s.value) if not (isinstance(s.value, ast.Name) and s.value.id in self.zvars) else s.value.id
        if isinstance(s, ast.Assign) and len(s.targets) == 1:
            t = s.targets[0]
            if isinstance(t, ast.Name):
                return "let %s := %s in\n  %s" % (t.id, self.value(t.id, s.value), self.block(rest))
            return "let '%s := %s in\n  %s" % (self.pattern(t), self.expr(s.value), self.block(rest))
        if isinstance(s, ast.AugAssign):
            return "let %s := Z.lor %s %s in\n  %s" % (s.target.id, s.target.id, self.z(s.value), self.block(rest))
        if isinstance(s, ast.If):
            c = self.expr(s.test)
            body_returns = self.returns(s.body)
            if s.orelse:
                if body_returns and self.returns(s.orelse):
                    if rest:
                        raise Unsupported("code after an if/else that always returns, line %d" % s.lineno)
                    return "(if %s then %s else %s)" % (c, self.block(s.body), self.block(s.orelse))
                if not any(isinstance(n, (ast.Return, ast.AugAssign)) for n in ast.walk(s)) and not self.zvars:
                    # if / elif / else that only binds locals: a simultaneous conditional update of all of them
                    vars_ = sorted({n.targets[0].id for n in ast.walk(s) if isinstance(n, ast.Assign) and len(n.targets) == 1 and isinstance(n.targets[0], ast.Name)})
                    if vars_ and not any(isinstance(n, ast.Assign) and not (len(n.targets) == 1 and isinstance(n.targets[0], ast.Name)) for n in ast.walk(s)):
                        pat = "'(%s)" % ", ".join(vars_) if len(vars_) > 1 else vars_[0]
                        val = "(if %s then %s else %s)" % (c, self.multi_update(s.body, vars_), self.multi_update(s.orelse, vars_))
                        return "let %s := %s in\n  %s" % (pat, val, self.block(rest))
                raise Unsupported("if/else that does not return on both sides at line %d" % s.lineno)
            if body_returns:
                return "(if %s then %s else %s)" % (c, self.block(s.body), self.block(rest))
            # conditional update of locals
            out = ""
            for a in s.body:
                if isinstance(a, ast.Assign) and len(a.targets) == 1 and isinstance(a.targets[0], ast.Name):
                    v = a.targets[0].id
                    out += "let %s := if %s then %s else %s in\n  " % (v, c, self.value(v, a.value), v)
                elif isinstance(a, ast.AugAssign):
                    v = a.target.id
                    out += "let %s := if %s then Z.lor %s %s else %s in\n  " % (v, c, v, self.z(a.value), v)
                else:
                    raise Unsupported("statement inside a non-returning if at line %d" % a.lineno)
            return out + self.block(rest)
        raise Unsupported("%s at line %d" % (type(s).__name__, s.lineno))

    def assert_is_type_test(self, t):
        """isinstance(<integer-valued local>, int) [and ...]: true by construction in the integer mode; anything else is a real test"""
        return False

    def multi_update(self, stmts, vars_):
        """the tuple of `vars_` after the non-returning statements `stmts` (assignments and nested if / elif / else)"""
        if not stmts:
            return "(%s)" % ", ".join(vars_) if len(vars_) > 1 else vars_[0]
        s, rest = stmts[0], stmts[1:]
        if isinstance(s, ast.Assign) and len(s.targets) == 1 and isinstance(s.targets[0], ast.Name):
            return "let %s := %s in %s" % (s.targets[0].id, self.value(s.targets[0].id, s.value), self.multi_update(rest, vars_))
        if isinstance(s, ast.If):
            pat = "'(%s)" % ", ".join(vars_) if len(vars_) > 1 else vars_[0]
            return "let %s := (if %s then %s else %s) in %s" % (pat, self.expr(s.test), self.multi_update(s.body, vars_), self.multi_update(s.orelse, vars_), self.multi_update(rest, vars_))
        raise Unsupported("%s inside a conditional update at line %d" % (type(s).__name__, s.lineno))

    def returns(self, stmts):
        """does every path through stmts end in return?"""
        if not stmts:
            return False
        last = stmts[-1]
        if isinstance(last, ast.Return):
            return True
        if isinstance(last, ast.If) and last.orelse:
            return self.returns(last.body) and self.returns(last.orelse)
        return False

    def definition(self):
        n = self.node
        a = n.args
        if a.vararg or a.kwarg or a.kwonlyargs or a.posonlyargs:
            raise Unsupported("argument form of %s" % n.name)
        names = [x.arg for x in a.args]
        out = "Definition t_%s %s :=\n  %s." % (n.name, " ".join(names), self.block(n.body))
        out += self.assert_obligation(names)
        for arg, d in zip(names[len(names) - len(a.defaults):], a.defaults):      # default argument values, as constants of their own
            if not (isinstance(d, ast.Constant) and isinstance(d.value, (int, float)) and not isinstance(d.value, bool)):
                raise Unsupported("default value of %s in %s" % (arg, n.name))
            out += "\nDefinition t_%s_default_%s := %s." % (n.name, arg, _q(d.value))
        return out


def _assert_obligation(self, names):
    """the assertions of the function never fire: a boolean function that is false exactly on the paths where one would, proved constantly true"""
    if not self.has_asserts:
        return ""
    self.checking = True
    try:
        body = self.block(self.node.body)
    finally:
        self.checking = False
    nm = self.node.name
    return ("\nDefinition t_%s__asserts %s :=\n  %s.\nLemma t_%s__asserts_hold : forall %s, t_%s__asserts %s = true.\nProof. kernel_assert t_%s__asserts. Qed."
            % (nm, " ".join(names), body, nm, " ".join(names), nm, " ".join(names), nm))
Fn.assert_obligation = _assert_obligation


class FnZQ(Fn):
    """Integer/float mode for ebb_calc: arguments are integers (Z); `/` and float literals produce rationals (Q).
    An expression is integer-valued when it is built from integer names and literals with + - *, int(), round(), math.ceil(),
    abs() / max() of integers, or a call of a translated integer function; otherwise it is translated in Q, with integer leaves
    injected (iz).  int(<int> / <int literal>) is Python's truncating quotient: Z.quot (exact in floats while |value| < 2^53)."""
    def __init__(self, node, known):
        Fn.__init__(self, node, known)
        a = node.args
        self.optional = set()                                    # arguments that are an integer or the string "clear" (-> option Z)
        for arg, d in zip(a.args[len(a.args) - len(a.defaults):], a.defaults):
            if isinstance(d, ast.Constant) and d.value == "clear":
                self.optional.add(arg.arg)
        self.zenv = set(x.arg for x in a.args) - self.optional    # integer-valued names
        self.qenv = set()

    def definition(self):
        n = self.node
        names = [x.arg for x in n.args.args]
        for d in n.args.defaults:
            if not (isinstance(d, ast.Constant) and d.value == "clear"):
                raise Unsupported("default value in %s" % n.name)
        out = "Definition t_%s %s :=\n  %s." % (n.name, " ".join(names), self.block(n.body))
        if self.has_asserts:
            self.zenv = set(x.arg for x in n.args.args) - self.optional; self.qenv = set()
            out += self.assert_obligation(names)
        return out

    def assert_is_type_test(self, t):
        parts = t.values if isinstance(t, ast.BoolOp) and isinstance(t.op, ast.And) else [t]
        return all(isinstance(q, ast.Call) and isinstance(q.func, ast.Name) and q.func.id == "isinstance" and len(q.args) == 2
                   and isinstance(q.args[0], ast.Name) and q.args[0].id in self.zenv and ast.unparse(q.args[1]) == "int" for q in parts)

    def is_clear_test(self, t):
        return isinstance(t, ast.Compare) and len(t.ops) == 1 and isinstance(t.ops[0], ast.Eq) and isinstance(t.left, ast.Name) \
            and t.left.id in self.optional and isinstance(t.comparators[0], ast.Constant) and t.comparators[0].value == "clear"

    def upd(self, stmts, var):
        """the value of `var` after the non-returning statements `stmts` (which may bind other locals on the way)"""
        if not stmts:
            return var
        s, rest = stmts[0], stmts[1:]
        if isinstance(s, ast.Assign) and len(s.targets) == 1 and isinstance(s.targets[0], ast.Name):
            t = s.targets[0].id
            return "let %s := %s in %s" % (t, self.value(t, s.value), self.upd(rest, var))
        if isinstance(s, ast.If):
            inner = set(n.targets[0].id for b in (s.body, s.orelse) for n in ast.walk(ast.Module(body=b, type_ignores=[]))
                        if isinstance(n, ast.Assign) and isinstance(n.targets[0], ast.Name)) - {var}
            used_after = set(n.id for r in rest for n in ast.walk(r) if isinstance(n, ast.Name))
            if inner & used_after:
                raise Unsupported("a local bound inside a branch is used after it, line %d" % s.lineno)
            c = self.expr(s.test)
            saved = (set(self.zenv), set(self.qenv))
            b1 = self.upd(s.body, var); self.zenv, self.qenv = set(saved[0]), set(saved[1])
            b2 = self.upd(s.orelse, var); self.zenv, self.qenv = saved
            return "let %s := (if %s then %s else %s) in %s" % (var, c, b1, b2, self.upd(rest, var))
        raise Unsupported("%s inside a conditional update at line %d" % (type(s).__name__, s.lineno))

    def upd_new(self, stmts, var, lineno):
        """the value given to the new local `var` by `stmts`, which must end by binding it"""
        if not stmts or not (isinstance(stmts[-1], ast.Assign) and isinstance(stmts[-1].targets[0], ast.Name) and stmts[-1].targets[0].id == var):
            raise Unsupported("the 'clear' branch at line %d does not end by binding %s" % (lineno, var))
        out = ""
        for a in stmts[:-1]:
            if not (isinstance(a, ast.Assign) and len(a.targets) == 1 and isinstance(a.targets[0], ast.Name)):
                raise Unsupported("statement in the 'clear' branch at line %d" % a.lineno)
            out += "let %s := %s in " % (a.targets[0].id, self.value(a.targets[0].id, a.value))
        return out + self.value(var, stmts[-1].value)

    def block(self, stmts):
        if stmts:
            s, rest = stmts[0], stmts[1:]
            # mpmath.mp.dps = 30 : the working precision; the translation is exact arithmetic, the statement has no counterpart
            if isinstance(s, ast.Assign) and len(s.targets) == 1 and isinstance(s.targets[0], ast.Attribute) \
                    and ast.unparse(s.targets[0]) in ("mpmath.mp.dps", "mpmath.mp.prec"):
                return self.block(rest)
            # if accum == "clear": <bind accum> else: accum = int(accum)
            if isinstance(s, ast.If) and self.is_clear_test(s.test):
                var = s.test.left.id
                # else: <target> = int(accum)   - the target is the argument itself or a new local (bound in the other branch too)
                ok = len(s.orelse) == 1 and isinstance(s.orelse[0], ast.Assign) and isinstance(s.orelse[0].targets[0], ast.Name) \
                    and ast.unparse(s.orelse[0].value) == "int(%s)" % var
                if not ok:
                    raise Unsupported("else branch of the 'clear' test at line %d" % s.lineno)
                tgt = s.orelse[0].targets[0].id
                saved = (set(self.zenv), set(self.qenv))
                body = self.upd(s.body, tgt) if tgt == var else self.upd_new(s.body, tgt, s.lineno)
                self.zenv, self.qenv = saved
                self.zenv.add(tgt)
                return "let %s := match %s with None => %s | Some %s => %s end in\n  %s" % (tgt, var, body, var, var, self.block(rest))
            # v -= <expr> / v += <expr>
            if isinstance(s, ast.AugAssign) and isinstance(s.op, (ast.Sub, ast.Add)) and isinstance(s.target, ast.Name):
                e = ast.BinOp(left=ast.Name(id=s.target.id, ctx=ast.Load()), op=s.op, right=s.value)
                ast.copy_location(e, s); ast.fix_missing_locations(e)
                return "let %s := %s in\n  %s" % (s.target.id, self.value(s.target.id, e), self.block(rest))
            # if <cond>: v = <expr>   (no else): conditional update keeping the kind (Z / Q) of v
            if isinstance(s, ast.If) and not s.orelse and not self.returns(s.body) and len(s.body) == 1 and isinstance(s.body[0], ast.Assign) \
                    and isinstance(s.body[0].targets[0], ast.Name):
                v = s.body[0].targets[0].id
                c = self.expr(s.test)
                if v in self.qenv:
                    return "let %s := if %s then (%s)%%Q else %s in\n  %s" % (v, c, self.eq(s.body[0].value), v, self.block(rest))
            # if <cond>: <assignments / nested ifs binding one local> [else: ...]   with no return inside: conditional update of that local
            if isinstance(s, ast.If) and not any(isinstance(n, ast.Return) for n in ast.walk(s)):
                assigned = set()
                for n in ast.walk(s):
                    if isinstance(n, ast.Assign) and len(n.targets) == 1 and isinstance(n.targets[0], ast.Name): assigned.add(n.targets[0].id)
                    elif isinstance(n, (ast.Assign, ast.AugAssign, ast.AnnAssign)): assigned.add(None)
                if len(assigned) == 1 and None not in assigned:
                    v = next(iter(assigned))
                    if v in self.zenv or v in self.qenv:
                        was_z = v in self.zenv
                        term = self.upd([s], v)
                        if (v in self.zenv) != was_z:
                            raise Unsupported("a conditional update changes the kind (integer / rational) of %s at line %d" % (v, s.lineno))
                        return "let %s := %s in\n  %s" % (v, term, self.block(rest))
        return Fn.block(self, stmts)

    def is_z(self, e):
        if isinstance(e, ast.Name): return e.id in self.zenv
        if isinstance(e, ast.Constant): return isinstance(e.value, int) and not isinstance(e.value, bool)
        if isinstance(e, ast.UnaryOp) and isinstance(e.op, ast.USub): return self.is_z(e.operand)
        if isinstance(e, ast.BinOp) and isinstance(e.op, (ast.Add, ast.Sub, ast.Mult)): return self.is_z(e.left) and self.is_z(e.right)
        if isinstance(e, ast.IfExp): return self.is_z(e.body) and self.is_z(e.orelse)
        if isinstance(e, ast.Call):
            f = self.fname(e)
            if f in ("int", "round", "math.ceil", "math.floor", "mpmath.floor", "mpmath.ceil"): return True
            if f in ("abs", "max", "min"): return all(self.is_z(a) for a in e.args)
            if f in self.known: return True
        return False

    def fname(self, e):
        if isinstance(e.func, ast.Name): return e.func.id
        if isinstance(e.func, ast.Attribute) and isinstance(e.func.value, ast.Name): return e.func.value.id + "." + e.func.attr
        raise Unsupported("call at line %d" % e.lineno)

    def ez(self, e):
        """e as an integer (Z) term"""
        if isinstance(e, ast.Name) and e.id in self.zenv: return e.id
        if isinstance(e, ast.Constant) and self.is_z(e): return "%d" % e.value if e.value >= 0 else "(%d)" % e.value
        if isinstance(e, ast.UnaryOp) and isinstance(e.op, ast.USub): return "(- %s)" % self.ez(e.operand)
        if isinstance(e, ast.IfExp) and self.is_z(e): return "(if %s then %s else %s)" % (self.expr(e.test), self.ez(e.body), self.ez(e.orelse))
        if isinstance(e, ast.BinOp) and self.is_z(e):
            return "(%s %s %s)" % (self.ez(e.left), {ast.Add: "+", ast.Sub: "-", ast.Mult: "*"}[type(e.op)], self.ez(e.right))
        if isinstance(e, ast.Call) and not e.keywords:
            f, a = self.fname(e), e.args
            if f == "int" and len(a) == 1:
                x = a[0]
                if self.is_z(x): return self.ez(x)
                if isinstance(x, ast.BinOp) and isinstance(x.op, ast.Div) and self.is_z(x.left) and isinstance(x.right, ast.Constant) \
                        and isinstance(x.right.value, int) and x.right.value > 0:
                    return "(Z.quot %s %d)" % (self.ez(x.left), x.right.value)
                return "(Qtrunc (%s)%%Q)" % self.eq(x)
            if f == "round" and len(a) == 1: return self.ez(a[0]) if self.is_z(a[0]) else "(Qround_he (%s)%%Q)" % self.eq(a[0])
            if f in ("math.ceil", "mpmath.ceil") and len(a) == 1: return self.ez(a[0]) if self.is_z(a[0]) else "(Qceiling (%s)%%Q)" % self.eq(a[0])
            if f in ("math.floor", "mpmath.floor") and len(a) == 1: return self.ez(a[0]) if self.is_z(a[0]) else "(Qfloor (%s)%%Q)" % self.eq(a[0])
            if f == "abs" and len(a) == 1 and self.is_z(a[0]): return "(Z.abs %s)" % self.ez(a[0])
            if f in ("max", "min") and len(a) >= 2 and all(self.is_z(x) for x in a):
                out = self.ez(a[0])
                for x in a[1:]: out = "(Z.%s %s %s)" % (f, out, self.ez(x))
                return out
            if f in self.known: return "(t_%s %s)" % (f, " ".join(self.ez(x) for x in a))
        raise Unsupported("integer expression at line %d" % e.lineno)

    def eq(self, e):
        """e as a rational (Q) term"""
        if self.is_z(e) and not isinstance(e, ast.BinOp):
            if isinstance(e, ast.Constant): return _q(e.value)
            return "iz %s" % self.ez(e) if isinstance(e, ast.Name) else "iz %s" % self.ez(e)
        if isinstance(e, ast.Name) and e.id in self.qenv: return e.id
        if isinstance(e, ast.Constant) and isinstance(e.value, float): return _q(e.value)
        if isinstance(e, ast.UnaryOp) and isinstance(e.op, ast.USub): return "(- %s)" % self.eq(e.operand)
        if isinstance(e, ast.BinOp):
            ops = {ast.Add: "+", ast.Sub: "-", ast.Mult: "*", ast.Div: "/"}
            if type(e.op) not in ops: raise Unsupported("operator at line %d" % e.lineno)
            l, r = self.eq(e.left), self.eq(e.right)
            # left-nested chains print without the parentheses the printer of the hand model omits
            return "%s %s %s" % (l if self.loose(e.left, e.op, True) else "(%s)" % l, ops[type(e.op)], r if self.loose(e.right, e.op, False) else "(%s)" % r)
        if isinstance(e, ast.Call) and self.fname(e) == "abs" and len(e.args) == 1: return "Qabs (%s)" % self.eq(e.args[0])
        if isinstance(e, ast.Call) and self.fname(e) == "mpmath.mpf" and len(e.args) == 1: return self.eq(e.args[0])     # exact layer: mpf(x) is x
        raise Unsupported("rational expression at line %d" % e.lineno)

    @staticmethod
    def loose(sub, op, left):
        """can `sub` stand unparenthesised as the left / right operand of `op`?"""
        if not isinstance(sub, ast.BinOp): return True
        prec = lambda o: 1 if isinstance(o, (ast.Add, ast.Sub)) else 2
        return prec(sub.op) > prec(op) or (left and prec(sub.op) == prec(op))

    def expr(self, e):
        if isinstance(e, ast.Compare):
            parts, left = [], e.left
            for op, right in zip(e.ops, e.comparators):
                if self.is_z(left) and self.is_z(right):
                    a, b = self.ez(left), self.ez(right)
                    t = {ast.Lt: "%s <? %s", ast.LtE: "%s <=? %s", ast.Eq: "%s =? %s"}
                    if type(op) in t: parts.append(t[type(op)] % (a, b))
                    elif isinstance(op, ast.Gt): parts.append("%s <? %s" % (b, a))
                    elif isinstance(op, ast.GtE): parts.append("%s <=? %s" % (b, a))
                    elif isinstance(op, ast.NotEq): parts.append("negb (%s =? %s)" % (a, b))
                    else: raise Unsupported("comparison at line %d" % e.lineno)
                else:
                    a, b = self.eq(left), self.eq(right)
                    a = a if " " not in a else "(%s)" % a; b = b if " " not in b else "(%s)" % b
                    if isinstance(op, ast.Lt): parts.append("Qltb %s %s" % (a, b))
                    elif isinstance(op, ast.Gt): parts.append("Qltb %s %s" % (b, a))
                    elif isinstance(op, ast.LtE): parts.append("Qleb %s %s" % (a, b))
                    elif isinstance(op, ast.GtE): parts.append("Qleb %s %s" % (b, a))
                    else: raise Unsupported("comparison at line %d" % e.lineno)
                left = right
            return "(" + " && ".join(parts) + ")"
        if isinstance(e, ast.BoolOp):
            return "(" + (" && " if isinstance(e.op, ast.And) else " || ").join(self.expr(v) for v in e.values) + ")"
        if isinstance(e, ast.UnaryOp) and isinstance(e.op, ast.Not):
            return "(negb %s)" % self.expr(e.operand)
        if isinstance(e, ast.Constant) and isinstance(e.value, bool):
            return "true" if e.value else "false"
        if isinstance(e, ast.Tuple):
            return "(" + ", ".join(self.expr(x) for x in e.elts) + ")"
        if isinstance(e, ast.IfExp):
            return "(if %s then %s else %s)" % (self.expr(e.test), self.expr(e.body), self.expr(e.orelse))
        if isinstance(e, ast.Name) and (e.id in getattr(self, "tenv", set()) or e.id in getattr(self, "benv", set())):
            return e.id
        return self.ez(e) if self.is_z(e) else "(%s)%%Q" % self.eq(e)

    def value(self, target, e):
        if isinstance(e, ast.Tuple):               # a local that holds the result pair
            term = self.expr(e)
            self.tenv = getattr(self, "tenv", set()) | {target}; self.zenv.discard(target); self.qenv.discard(target)
            return term
        if isinstance(e, (ast.Compare, ast.BoolOp)) or (isinstance(e, ast.UnaryOp) and isinstance(e.op, ast.Not)) or (isinstance(e, ast.Constant) and isinstance(e.value, bool)):
            term = self.expr(e)                    # a local that holds a truth value
            self.benv = getattr(self, "benv", set()) | {target}; self.zenv.discard(target); self.qenv.discard(target)
            return term
        if self.is_z(e):
            term = self.ez(e)                      # translated in the environment before the binding
            self.zenv.add(target); self.qenv.discard(target)
            return term
        term = "(%s)%%Q" % self.eq(e)
        self.qenv.add(target); self.zenv.discard(target)
        return term


BUILTINS = {"min", "max", "abs", "int", "round", "bool", "float"}

def _const_value(e, consts):
    """value of a module-level numeric constant expression (literals, earlier constants, + - * ** and unary minus), or None"""
    if isinstance(e, ast.Constant) and isinstance(e.value, (int, float)) and not isinstance(e.value, bool): return e.value
    if isinstance(e, ast.Name) and e.id in consts: return consts[e.id]
    if isinstance(e, ast.UnaryOp) and isinstance(e.op, ast.USub):
        v = _const_value(e.operand, consts); return None if v is None else -v
    if isinstance(e, ast.BinOp) and isinstance(e.op, (ast.BitOr, ast.BitAnd, ast.LShift)):
        a, b = _const_value(e.left, consts), _const_value(e.right, consts)
        if not (isinstance(a, int) and isinstance(b, int)) or (isinstance(e.op, ast.LShift) and not 0 <= b <= 64): return None
        return a | b if isinstance(e.op, ast.BitOr) else a & b if isinstance(e.op, ast.BitAnd) else a << b
    if isinstance(e, ast.BinOp) and isinstance(e.op, (ast.Add, ast.Sub, ast.Mult, ast.Pow)):
        a, b = _const_value(e.left, consts), _const_value(e.right, consts)
        if a is None or b is None: return None
        if isinstance(e.op, ast.Pow):
            return a ** b if isinstance(a, int) and isinstance(b, int) and 0 <= b <= 64 else None
        return a + b if isinstance(e.op, ast.Add) else a - b if isinstance(e.op, ast.Sub) else a * b
    return None

class _Inline(ast.NodeTransformer):
    """module-level numeric constants read inside a function become literals (unless the function binds the name itself)"""
    def __init__(self, consts, local): self.consts, self.local = consts, local
    def visit_Name(self, n):
        if isinstance(n.ctx, ast.Load) and n.id in self.consts and n.id not in self.local:
            return ast.copy_location(ast.Constant(value=self.consts[n.id]), n)
        return n

class _SplitTuples(ast.NodeTransformer):
    """a, b = x, y  ->  a = x; b = y   when no target occurs in a value (the two are then the same assignment)"""
    def visit_Assign(self, n):
        if len(n.targets) == 1 and isinstance(n.targets[0], ast.Tuple) and isinstance(n.value, ast.Tuple) and len(n.targets[0].elts) == len(n.value.elts) \
                and all(isinstance(t, ast.Name) for t in n.targets[0].elts):
            names = {t.id for t in n.targets[0].elts}
            if len(names) == len(n.targets[0].elts) and not any(isinstance(x, ast.Name) and x.id in names for v in n.value.elts for x in ast.walk(v)):
                return [ast.copy_location(ast.Assign(targets=[ast.Name(id=t.id, ctx=ast.Store())], value=v), n) for t, v in zip(n.targets[0].elts, n.value.elts)]
        return n

def translate(path, names, mode="q"):
    tree = ast.parse(open(path).read(), path)
    found = {n.name: n for n in tree.body if isinstance(n, ast.FunctionDef)}
    # module-level numeric constants, assigned exactly once
    consts, seen = {}, {}
    for st in tree.body:
        if isinstance(st, ast.Assign) and len(st.targets) == 1 and isinstance(st.targets[0], ast.Name):
            seen[st.targets[0].id] = seen.get(st.targets[0].id, 0) + 1
            v = _const_value(st.value, consts)
            if v is not None: consts[st.targets[0].id] = v
    consts = {k: v for k, v in consts.items() if seen.get(k) == 1}
    # helper functions of the module called from the requested ones (transitively): translated too, before their callers
    order = []
    def need(name, stack=()):
        if name in order: return
        if name in stack: raise Unsupported("recursive helper %s" % name)
        if name not in found: raise Unsupported("function %s not found in %s" % (name, path))
        for c in ast.walk(found[name]):
            if isinstance(c, ast.Call) and isinstance(c.func, ast.Name) and c.func.id in found and c.func.id != name and c.func.id not in BUILTINS:
                need(c.func.id, stack + (name,))
        order.append(name)
    for name in names: need(name)
    out = []
    for name in order:
        node = found[name]
        local = {a.arg for a in node.args.args} | {n.id for n in ast.walk(node) if isinstance(n, ast.Name) and isinstance(n.ctx, ast.Store)}
        node = ast.fix_missing_locations(_SplitTuples().visit(_Inline(consts, local).visit(node)))
        out.append((Fn if mode == "q" else FnZQ)(node, set(order)).definition() + "\n#[local] Hint Unfold t_%s : kernels." % name)
    return "\n\n".join(out) + "\n"


if __name__ == "__main__":
    try:
        mode = "q"
        if sys.argv[1] == "--zq": mode = "zq"; del sys.argv[1]
        sys.stdout.write(translate(sys.argv[1], sys.argv[2:], mode))
    except Unsupported as e:
        sys.stderr.write("py2v: unsupported: %s\n" % e)
        sys.exit(3)
